"""C17 — Custodian helper functions and the filter-context lifecycle.

Context half (what simulation decides): a seeded history of evaluations, each with a *fresh* fake
Custodian filter F_k, through the three documented routes (C7N_Interpreted_Runner.evaluate(ctx,
filter=F_k); `with C7NContext(filter=F_k): program.evaluate(ctx)` for either runner; a direct
helper call inside `with C7NContext`), with faults: CEL evaluation error, helper ValueError, the fake
filter / client raising an unmapped exception, simulated network faults in urlopen, abort at an
arbitrary library line.  Invariants: celpy.c7nlib.C7N is None before and after every operation;
every fake-filter / fake-network call sees the context of the running operation; values produced
through the filter carry the id of the running operation's filter; operations after a fault return
their reference value.

Helper half: pure functions; they ride along as the per-operation reference model
(sim/ref_c7n.py), as DESIGN.md says.
"""

from __future__ import annotations

import gzip as _gzip
import sys
from typing import Any, Dict, List, Optional, Tuple

from . import kit, ref_c7n
from .sched import LineTracer, SimAbort

PROP = "C17"

MODES = ["runner", "with_I", "with_C", "direct", "nested_runner"]
CTX_KINDS = ["image_name", "related_ids", "service_roles", "kms_alias", "accounts",
             "launch_configs", "subscription_filters", "text_from", "value_from"]
PURE_KINDS = ["intersect", "difference", "unique_size", "normalize", "glob", "cidr_contains",
              "cidr_size", "version", "key", "marked_key", "arn_split"]
ERR_KINDS = ["cel_error", "arn_bad"]


class ThrottlingError(Exception):
    """What a cloud client raises under load: not an exception the library maps."""


# --------------------------------------------------------------------------------------------
# the fake Custodian side


class Sim:
    """Per-run harness state shared by the fakes."""

    def __init__(self) -> None:
        self.current_k: Optional[int] = None
        self.current_filter: Any = None
        self.context_reads = 0
        self.bad_context: List[Dict[str, Any]] = []
        self.net_fault: Optional[str] = None
        self.net_calls = 0
        self.fired: Dict[str, int] = {}

    def observe(self, who: str, flt: Any) -> None:
        """Called by every fake method: what does celpy.c7nlib.C7N look like right now?"""
        c7n = sys.modules["celpy.c7nlib"].C7N
        self.context_reads += 1
        seen = getattr(c7n, "filter", None) if c7n is not None else None
        want = self.current_filter
        ok = c7n is not None and seen is want and (flt is None or flt is want)
        if not ok:
            self.bad_context.append({
                "who": who, "running_op_filter": self.current_k,
                "context_filter": getattr(seen, "k", None) if seen is not None else None,
                "called_filter": getattr(flt, "k", None) if flt is not None else None,
                "context_is_none": c7n is None})


class FakeClient:
    def __init__(self, flt: "FakeFilter", name: str) -> None:
        self.flt = flt
        self.name = name

    def describe_subscription_filters(self, **kw: Any) -> Dict[str, Any]:
        self.flt._touch("client.describe_subscription_filters")
        return {"subscriptionFilters": [{"name": f"sf-{self.flt.k}", "group": kw.get("logGroupName")}]}


class FakeSession:
    def __init__(self, flt: "FakeFilter") -> None:
        self.flt = flt

    def client(self, name: str) -> FakeClient:
        self.flt._touch("session.client")
        return FakeClient(self.flt, name)


class FakeResourceManager:
    def __init__(self, flt: "FakeFilter", kind: str) -> None:
        self.flt = flt
        self.kind = kind

    def resources(self) -> List[Dict[str, Any]]:
        self.flt._touch("resource_manager.resources")
        k = self.flt.k
        if self.kind == "asg":
            return [{"AutoScalingGroupName": f"asg-{k}", "LaunchConfigurationName": f"lc-{k}"}]
        return [{"id": f"{self.kind}-{k}"}]


class FakeManager:
    def __init__(self, flt: "FakeFilter") -> None:
        self.flt = flt
        self.resource_type = "ec2"

    def session_factory(self) -> FakeSession:
        self.flt._touch("manager.session_factory")
        return FakeSession(self.flt)

    def retry(self, fn: Any, **kw: Any) -> Any:
        self.flt._touch("manager.retry")
        return fn(**kw)

    def get_resource_manager(self, kind: str) -> FakeResourceManager:
        self.flt._touch("manager.get_resource_manager")
        return FakeResourceManager(self.flt, kind)


class _Sized:
    """Mixed into a filter that is a (currently empty) container: a legitimate filter object whose
    truth value is False."""

    def __len__(self) -> int:
        return 0


class FakeFilter:
    """In-process fake of the Custodian CELFilter; every document it returns embeds its id k."""

    def __init__(self, sim: Sim, k: int, raise_at: Optional[int] = None) -> None:
        self.sim = sim
        self.k = k
        self.calls = 0
        self.raise_at = raise_at
        self.manager = FakeManager(self)

    def _touch(self, who: str) -> None:
        self.calls += 1
        self.sim.observe(who, self)
        if self.raise_at is not None and self.calls >= self.raise_at:
            self.raise_at = None
            self.sim.fired["filter_raise"] = self.sim.fired.get("filter_raise", 0) + 1
            raise ThrottlingError(f"Rate exceeded (filter {self.k})")

    def get_instance_image(self, resource: Any) -> Dict[str, Any]:
        self._touch("get_instance_image")
        return {"CreationDate": f"2020-01-{(self.k % 27) + 1:02d}T00:00:00Z", "Name": f"image-{self.k}"}

    def get_related_ids(self, resource: Any) -> List[str]:
        self._touch("get_related_ids")
        return [f"id-{self.k}-a", f"id-{self.k}-b"]

    def service_role_usage(self) -> List[str]:
        self._touch("service_role_usage")
        return [f"role-{self.k}"]

    def get_matching_aliases(self) -> List[str]:
        self._touch("get_matching_aliases")
        return [f"alias-{self.k}"]

    def get_accounts(self) -> List[str]:
        self._touch("get_accounts")
        return [f"acct-{self.k}"]


class FalsyFilter(_Sized, FakeFilter):
    pass


class FakeResponse:
    def __init__(self, body: bytes, gz: bool) -> None:
        self.body = body
        self.gz = gz
        self.closed = False

    def info(self) -> Dict[str, str]:
        return {"Content-Encoding": "gzip"} if self.gz else {}

    def read(self) -> bytes:
        return self.body

    def close(self) -> None:
        self.closed = True


def make_urlopen(sim: Sim) -> Any:
    import urllib.error

    def fake_urlopen(req: Any, *a: Any, **kw: Any) -> FakeResponse:
        sim.net_calls += 1
        sim.observe("urlopen", None)
        url = req.full_url if hasattr(req, "full_url") else str(req)
        fault = sim.net_fault
        if fault == "url_error":
            sim.fired["net_url_error"] = sim.fired.get("net_url_error", 0) + 1
            raise urllib.error.URLError("simulated: connection refused")
        if fault == "timeout":
            sim.fired["net_timeout"] = sim.fired.get("net_timeout", 0) + 1
            raise TimeoutError("simulated: timed out")
        k = sim.current_k
        if url.endswith(".json"):
            text = '{"id": "doc-%s", "n": %s}' % (k, k)
        else:
            text = f"text-{k}"
        body = text.encode()
        gz = url.startswith("http://gz")
        if gz or fault == "truncated_gzip":
            body = _gzip.compress(body)
            gz = True
            if fault == "truncated_gzip":
                sim.fired["net_truncated_gzip"] = sim.fired.get("net_truncated_gzip", 0) + 1
                body = body[: max(4, len(body) // 2)]
        return FakeResponse(body, gz)

    return fake_urlopen


# --------------------------------------------------------------------------------------------
# catalogue: kind + params -> CEL text, direct call, expected value


def _cel_list(xs: List[Any]) -> str:
    return "[" + ", ".join(('"%s"' % x) if isinstance(x, str) else str(x) for x in xs) + "]"


def text_of(kind: str, p: Dict[str, Any]) -> str:
    m = p.get("method", False)
    if kind in ("intersect", "difference"):
        a, b = _cel_list(p["a"]), _cel_list(p["b"])
        return f"{a}.{kind}({b})" if m else f"{kind}({a}, {b})"
    if kind == "unique_size":
        a = _cel_list(p["a"])
        return f"{a}.unique_size()" if m else f"unique_size({a})"
    if kind == "normalize":
        return f'"{p["s"]}".normalize()' if m else f'normalize("{p["s"]}")'
    if kind == "glob":
        return f'"{p["text"]}".glob("{p["pat"]}")' if m else f'glob("{p["text"]}", "{p["pat"]}")'
    if kind == "cidr_contains":
        return f'parse_cidr("{p["net"]}").contains(parse_cidr("{p["other"]}"))'
    if kind == "cidr_size":
        return f'size_parse_cidr("{p["net"]}")'
    if kind == "version":
        return f'version("{p["a"]}") {p["op"]} version("{p["b"]}")'
    if kind == "key":
        return f'resource.Tags.key("{p["k"]}")' if m else f'key(resource.Tags, "{p["k"]}")'
    if kind == "marked_key":
        if p["field"] == "null":
            return f'resource.Tags.marked_key("{p["k"]}") == null'
        return f'resource.Tags.marked_key("{p["k"]}").{p["field"]}'
    if kind == "arn_split":
        return f'arn_split(resource.arn, "{p["field"]}")'
    if kind == "arn_bad":
        return 'arn_split("not-an-arn", "region") == "x"'
    if kind == "cel_error":
        return p["text"]
    if kind == "image_name":
        return "resource.image().Name" if m else "image(resource).Name"
    if kind == "related_ids":
        return f"resource.get_related_ids()[{p['i']}]"
    if kind == "service_roles":
        return "all_service_roles()[0]"
    if kind == "kms_alias":
        return "resource.kms_alias()[0]"
    if kind == "accounts":
        return "resource.get_accounts()[0]"
    if kind == "launch_configs":
        return "all_launch_configuration_names()[0]"
    if kind == "subscription_filters":
        return "resource.describe_subscription_filters()[0].name"
    if kind == "text_from":
        return f'text_from("{p["url"]}")'
    if kind == "value_from":
        return f'value_from("{p["url"]}").id'
    raise ValueError(kind)


def custom_helper(name: str) -> Any:
    """The application's own replacement for one c7nlib helper (bound in one program only)."""
    from celpy import celtypes

    if name == "normalize":
        def normalize(s: Any) -> Any:
            return celtypes.StringType("custom:" + str(s))
        return normalize
    if name == "glob":
        def glob(text: Any, pattern: Any) -> Any:
            return celtypes.BoolType(len(text) == len(pattern))
        return glob

    def unique_size(collection: Any) -> Any:
        return celtypes.IntType(1000 + len(collection))
    return unique_size


def expected_custom(name: str, p: Dict[str, Any]) -> Any:
    if name == "normalize":
        return ["str", "custom:" + p["s"]]
    if name == "glob":
        return ["bool", len(p["text"]) == len(p["pat"])]
    return ["int", 1000 + len(p["a"])]


def expected_of(kind: str, p: Dict[str, Any], k: int, resource: Dict[str, Any]) -> Any:
    if kind == "intersect":
        return ["bool", ref_c7n.intersect(p["a"], p["b"])]
    if kind == "difference":
        return ["bool", ref_c7n.difference(p["a"], p["b"])]
    if kind == "unique_size":
        return ["int", ref_c7n.unique_size(p["a"])]
    if kind == "normalize":
        return ["str", ref_c7n.normalize(p["s"])]
    if kind == "glob":
        return ["bool", ref_c7n.glob(p["text"], p["pat"])]
    if kind == "cidr_contains":
        return ["bool", ref_c7n.net_contains(p["net"], p["other"])]
    if kind == "cidr_size":
        return ["int", ref_c7n.prefix_len(p["net"])]
    if kind == "version":
        c = ref_c7n.version_cmp(p["a"], p["b"])
        return ["bool", {"<": c < 0, "<=": c <= 0, ">": c > 0, ">=": c >= 0, "==": c == 0,
                         "!=": c != 0}[p["op"]]]
    if kind == "key":
        v = ref_c7n.key(resource["Tags"], p["k"])
        return ["null"] if v is None else ["str", v]
    if kind == "marked_key":
        v = ref_c7n.marked_key(resource["Tags"], p["k"])
        if p["field"] == "null":
            return ["bool", v is None]
        if v is None:
            return ["err"]
        return ["str", v[p["field"]]]
    if kind == "arn_split":
        v = ref_c7n.arn_split(resource["arn"], p["field"])
        if v == "SILENT":
            return ["silent"]
        return ["err"] if v == "ERR" else ["str", v]
    if kind in ("arn_bad", "cel_error"):
        return ["err"]
    if kind == "image_name":
        return ["str", f"image-{k}"]
    if kind == "related_ids":
        return ["str", f"id-{k}-{'ab'[p['i']]}"]
    if kind == "service_roles":
        return ["str", f"role-{k}"]
    if kind == "kms_alias":
        return ["str", f"alias-{k}"]
    if kind == "accounts":
        return ["str", f"acct-{k}"]
    if kind == "launch_configs":
        return ["str", f"lc-{k}"]
    if kind == "subscription_filters":
        return ["str", f"sf-{k}"]
    if kind == "text_from":
        return ["str", f"text-{k}"]
    if kind == "value_from":
        return ["str", f"doc-{k}"]
    raise ValueError(kind)


def direct_call(kind: str, p: Dict[str, Any], resource_cel: Any) -> Any:
    """The same helper called as a Python function (inside `with C7NContext`)."""
    import celpy
    from celpy import c7nlib as L

    j = celpy.json_to_cel
    if kind in ("intersect", "difference"):
        return getattr(L, kind)(j(p["a"]), j(p["b"]))
    if kind == "unique_size":
        return L.unique_size(j(p["a"]))
    if kind == "normalize":
        return L.normalize(j(p["s"]))
    if kind == "glob":
        return L.glob(j(p["text"]), j(p["pat"]))
    if kind == "cidr_contains":
        return L.parse_cidr(p["net"]).contains(L.parse_cidr(p["other"]))
    if kind == "cidr_size":
        return L.size_parse_cidr(j(p["net"]))
    if kind == "version":
        import operator

        op = {"<": operator.lt, "<=": operator.le, ">": operator.gt, ">=": operator.ge,
              "==": operator.eq, "!=": operator.ne}[p["op"]]
        return op(L.version(j(p["a"])), L.version(j(p["b"])))
    if kind == "key":
        return L.key(resource_cel["Tags"], j(p["k"]))
    if kind == "marked_key":
        v = L.marked_key(resource_cel["Tags"], j(p["k"]))
        if p["field"] == "null":
            return v is None
        if v is None:
            raise celpy.CELEvalError("null has no field (direct-mode stand-in for the CEL error)")
        return v[j(p["field"])]
    if kind == "arn_split":
        return L.arn_split(resource_cel["arn"], j(p["field"]))
    if kind == "arn_bad":
        return L.arn_split(j("not-an-arn"), j("region"))
    if kind == "cel_error":
        raise celpy.CELEvalError("direct mode has no CEL expression")
    if kind == "image_name":
        return L.image(resource_cel)[j("Name")]
    if kind == "related_ids":
        return L.get_related_ids(resource_cel)[p["i"]]
    if kind == "service_roles":
        return L.all_service_roles()[0]
    if kind == "kms_alias":
        return L.kms_alias(resource_cel)[0]
    if kind == "accounts":
        return L.get_accounts(resource_cel)[0]
    if kind == "launch_configs":
        return L.all_launch_configuration_names()[0]
    if kind == "subscription_filters":
        return L.describe_subscription_filters(resource_cel)[0][j("name")]
    if kind == "text_from":
        return L.text_from(j(p["url"]))
    if kind == "value_from":
        return L.value_from(j(p["url"]))[j("id")]
    raise ValueError(kind)


# --------------------------------------------------------------------------------------------
# generation

_GLOB_TEXT = "ab.["
_GLOB_PAT_ATOMS = ["a", "b", ".", "*", "?", "[ab]", "[!a]", "[a]", "[", "[b.]", "**"]


def _rand_net(r: Any) -> Tuple[str, int, int]:
    p = r.randrange(0, 33)
    addr = r.getrandbits(32)
    mask = ((1 << 32) - 1) ^ ((1 << (32 - p)) - 1) if p else 0
    base = addr & mask
    return f"{ref_c7n.int_ip(base)}/{p}", base, p


def gen_params(r: Any, kind: str) -> Dict[str, Any]:
    p: Dict[str, Any] = {"method": r.random() < 0.5}
    if kind in ("intersect", "difference", "unique_size"):
        # lists of strings, of ints, and of both (equal elements then sit behind ones of the other
        # type); up to five elements
        pool = r.choice([["a", "b", "c"], [0, 1, 2, 3], ["x", "y"], ["a", 1, "b", 2], [1, "1", "a"]])
        p["a"] = [r.choice(pool) for _ in range(r.randrange(0, 6))]
        p["b"] = [r.choice(pool) for _ in range(r.randrange(0, 4))]
    elif kind == "normalize":
        # ... and letters whose lower-case form is not their case-folded form
        p["s"] = r.choice([" AB ", "aB", "  ", "x Y ", "", "Zz  ", "  MiXed Case", "Stra\u00dfe ",
                           " \u017fT", "\u00b5M ", "\u03a3\u0391\u03a3", " \u00c4b\u00d6 ", "\u0130x"])
    elif kind == "glob":
        atoms = [r.choice(_GLOB_PAT_ATOMS) for _ in range(r.randrange(0, 4))]
        p["pat"] = "".join(atoms)
        if r.random() < 0.5:
            # a text built to match the pattern atom by atom (positives are otherwise rare)
            out = []
            for a in atoms:
                if a in ("*", "**"):
                    out.append("".join(r.choice(_GLOB_TEXT) for _ in range(r.randrange(0, 3))))
                elif a == "?":
                    out.append(r.choice(_GLOB_TEXT))
                elif a.startswith("[!"):
                    out.append(r.choice([c for c in _GLOB_TEXT if c not in a[2:-1]] or ["b"]))
                elif a.startswith("[") and len(a) > 1:
                    out.append(r.choice(a[1:-1]))
                else:
                    out.append(a)
            p["text"] = "".join(out)
        else:
            p["text"] = "".join(r.choice(_GLOB_TEXT) for _ in range(r.randrange(0, 5)))
    elif kind == "cidr_contains" and r.random() < 0.35:
        # two canonical networks (or a network and its first address) that start at the same,
        # well-aligned address: containment is decided by the prefix lengths alone
        anchor = ref_c7n.ip_int(r.choice(["10.0.0.0", "0.0.0.0", "192.168.0.0", "128.0.0.0",
                                          "172.16.0.0", "10.1.0.0", "224.0.0.0", "192.168.1.0"]))
        tz = 32 if anchor == 0 else (anchor & -anchor).bit_length() - 1
        lo = 32 - tz  # shortest prefix for which the anchor has no host bits
        pl, ql = r.randrange(lo, 33), r.randrange(lo, 33)
        p["net"] = f"{ref_c7n.int_ip(anchor)}/{pl}"
        p["other"] = ref_c7n.int_ip(anchor) if r.random() < 0.15 else f"{ref_c7n.int_ip(anchor)}/{ql}"
    elif kind == "cidr_contains":
        net, base, plen = _rand_net(r)
        p["net"] = net
        span = (1 << (32 - plen))
        mode = r.randrange(5)
        if mode == 0:      # address inside
            p["other"] = ref_c7n.int_ip(base + r.randrange(span))
        elif mode == 1:    # address anywhere
            p["other"] = ref_c7n.int_ip(r.getrandbits(32))
        elif mode == 2:    # sub-network inside
            q = r.randrange(plen, 33)
            sub = (base + r.randrange(span)) & (((1 << 32) - 1) ^ ((1 << (32 - q)) - 1) if q else 0)
            p["other"] = f"{ref_c7n.int_ip(sub)}/{q}"
        elif mode == 3:    # a super-network (shorter prefix)
            q = r.randrange(0, plen + 1)
            sup = base & (((1 << 32) - 1) ^ ((1 << (32 - q)) - 1) if q else 0)
            p["other"] = f"{ref_c7n.int_ip(sup)}/{q}"
        else:              # edges: first / last address, neighbours
            edge = r.choice([base, base + span - 1, base - 1, base + span]) & ((1 << 32) - 1)
            p["other"] = ref_c7n.int_ip(edge)
    elif kind == "cidr_size":
        p["net"] = _rand_net(r)[0]
    elif kind == "version":
        def ver() -> str:
            return ".".join(str(r.choice([0, 1, 2, 9, 10, 11])) for _ in range(r.randrange(1, 4)))
        p["a"], p["b"] = ver(), ver()
        if r.random() < 0.2:
            p["b"] = p["a"] + r.choice(["", ".0", ".0.0"])
        p["op"] = r.choice(["<", "<=", ">", ">=", "==", "!="])
    elif kind == "key":
        p["k"] = r.choice(["Name", "env", "owner", "missing"])
    elif kind == "marked_key":
        p["k"] = r.choice(["mark", "mark2", "missing", "Name"])
        p["field"] = r.choice(["message", "action", "null"])
    elif kind == "arn_split":
        p["field"] = r.choice(list(ref_c7n.ARN_FIELDS_6))
    elif kind == "cel_error":
        p["text"] = r.choice(["resource.nofield == 1", "1 / 0 == 1", "resource.Tags[99].Key == 'x'",
                              "resource.image().NoSuchField == 1"])
    elif kind == "related_ids":
        p["i"] = r.randrange(2)
    elif kind == "text_from":
        p["url"] = r.choice(["http://sim/a.txt", "http://gz.sim/a.txt"])
    elif kind == "value_from":
        p["url"] = r.choice(["http://sim/doc.json", "http://gz.sim/doc.json"])
    return p


def gen_resource(r: Any, k: int) -> Dict[str, Any]:
    tags = []
    for _ in range(r.randrange(0, 5)):
        key = r.choice(["Name", "env", "owner", "mark", "mark2", "Name"])
        if key.startswith("mark"):
            val = r.choice(["msg: stop@2020-09-10", "a:b:c: terminate@2021-01-02",
                            "no marker here", "x:stop@2020-09-10T11:12:13Z", "only:colon"])
        else:
            val = r.choice(["web", "prod", "", f"v{k}", "Alice"])
        tags.append({"Key": key, "Value": val})
    arn = r.choice([
        f"arn:aws:s3:::bucket-{k}",
        f"arn:aws:ec2:us-east-1:123456789012:instance/i-{k}",
        f"arn:aws:rds:eu-west-1:123456789012:db:name-{k}",
        f"arn:aws:iam::123456789012:role/r-{k}",
    ])
    return {"Tags": tags, "arn": arn, "ImageId": f"ami-{k}", "logGroupName": f"lg-{k}"}


def generate(seed: int, tier: str = "quick") -> Dict[str, Any]:
    rc = kit.rng(seed, "config")
    rw = kit.rng(seed, "workload")
    rf = kit.rng(seed, "faults")
    cfg = {
        "n_ops": rc.choice([2, 3, 4, 5, 6, 8, 10, 12]),
        "n_programs": rc.choice([1, 2, 3, 5, 6]),
        "fault_class": rc.choice(["none", "faults", "faults"]),
        "ctx_share": rc.choice([0.2, 0.5, 0.7, 0.9]),
        "pure_focus": rc.sample(PURE_KINDS, rc.choice([1, 1, 2, 3, len(PURE_KINDS)])),
        "modes": rc.choice([MODES, MODES, ["runner"], ["with_C", "with_I"], ["runner", "direct"],
                            ["runner", "nested_runner"]]),
    }
    cfg["falsy_filters"] = rc.random() < 0.2
    fault_kinds = []
    if cfg["fault_class"] == "faults":
        fault_kinds = [k for k in ("cel_error", "helper_error", "filter_raise", "net", "abort")
                       if rc.random() < 0.6] or ["filter_raise"]
    cfg["fault_kinds"] = fault_kinds
    programs = []
    for _ in range(cfg["n_programs"]):
        # the pure helpers of one run come from a small subset, so that the same helper is used
        # several times in one history with different inputs (anything it remembers would show)
        kind = rw.choice(CTX_KINDS) if rw.random() < cfg["ctx_share"] else rw.choice(cfg["pure_focus"])
        programs.append({"kind": kind, "params": gen_params(rw, kind)})
    if rc.random() < 0.25:
        # a program of the application that binds its own function mapping: the c7nlib table
        # plus an application-specific replacement of one helper
        k = rw.choice(["normalize", "glob", "unique_size"])
        programs.append({"kind": k, "params": gen_params(rw, k), "custom": k})
        programs.append({"kind": k, "params": gen_params(rw, k)})
    if "cel_error" in fault_kinds:
        programs.append({"kind": "cel_error", "params": gen_params(rw, "cel_error")})
    if "helper_error" in fault_kinds:
        programs.append({"kind": "arn_bad", "params": {}})
    ops = []
    for i in range(cfg["n_ops"]):
        pi = rw.randrange(len(programs))
        op: Dict[str, Any] = {"prog": pi, "mode": rw.choice(cfg["modes"]), "k": 100 + i,
                              "resource": gen_resource(rw, 100 + i)}
        kind = programs[pi]["kind"]
        if kind in CTX_KINDS and "filter_raise" in fault_kinds and rf.random() < 0.3 \
                and kind not in ("text_from", "value_from"):
            op["filter_raise_at"] = rf.choice([1, 1, 2, 3])
        if kind in ("text_from", "value_from") and "net" in fault_kinds and rf.random() < 0.5:
            op["net_fault"] = rf.choice(["url_error", "timeout", "truncated_gzip"])
        if "abort" in fault_kinds and rf.random() < 0.25:
            op["abort"] = int(round(2 ** rf.uniform(0, 11)))
        if cfg["falsy_filters"] and rw.random() < 0.5:
            op["falsy_filter"] = True  # the filter object of this evaluation is an empty container
        ops.append(op)
    return {"prop": PROP, "seed": seed, "cfg": cfg, "programs": programs, "ops": ops}


# --------------------------------------------------------------------------------------------
# execution


def exec_history(trace: Dict[str, Any]) -> Dict[str, Any]:
    celpy = kit.fresh_celpy()
    import urllib.request

    L = sys.modules["celpy.c7nlib"]
    sim = Sim()
    real_urlopen = urllib.request.urlopen
    urllib.request.urlopen = make_urlopen(sim)
    records: List[Dict[str, Any]] = []
    compiled: Dict[str, Any] = {}
    try:
        decls = {"resource": celpy.celtypes.MapType, "now": celpy.celtypes.TimestampType}
        decls.update(L.DECLARATIONS)
        runner_for = {"runner": L.C7N_Interpreted_Runner, "with_I": celpy.InterpretedRunner,
                      "with_C": celpy.CompiledRunner, "nested_runner": L.C7N_Interpreted_Runner}
        for op in trace["ops"]:
            prog = trace["programs"][op["prog"]]
            kind, params, mode, k = prog["kind"], prog["params"], op["mode"], op["k"]
            if mode == "direct" and (kind == "cel_error" or prog.get("custom")):
                mode = "runner"
            rec: Dict[str, Any] = {"mode": mode, "kind": kind, "k": k}
            if L.C7N is not None:
                rec["pre_context"] = repr(getattr(L.C7N, "filter", None))[:60]
            flt = (FalsyFilter if op.get("falsy_filter") else FakeFilter)(
                sim, k, raise_at=op.get("filter_raise_at"))
            sim.current_k, sim.current_filter = k, flt
            sim.net_fault = op.get("net_fault")
            bad0 = len(sim.bad_context)
            resource_cel = celpy.json_to_cel(op["resource"])
            activation = {"resource": resource_cel,
                          "now": celpy.celtypes.TimestampType("2020-09-10T11:12:13Z")}

            def run() -> Any:
                if mode == "direct":
                    with L.C7NContext(filter=flt):
                        return direct_call(kind, params, resource_cel)
                key = f"{runner_for[mode].__name__}|{op['prog']}"
                prgm = compiled.get(key)
                if prgm is None:
                    env = celpy.Environment(annotations=dict(decls), runner_class=runner_for[mode])
                    functions = L.FUNCTIONS
                    if prog.get("custom"):
                        functions = dict(L.FUNCTIONS)
                        functions[prog["custom"]] = custom_helper(prog["custom"])
                    prgm = env.program(env.compile(text_of(kind, params)), functions=functions)
                    compiled[key] = prgm
                if mode == "runner":
                    return prgm.evaluate(activation, filter=flt)
                if mode == "nested_runner":
                    # the integration pattern of the library's own tests: an outer context around
                    # C7N_Interpreted_Runner.evaluate(..., filter=F_k); F_k is the one that counts
                    with L.C7NContext(filter=FakeFilter(sim, -k)):
                        return prgm.evaluate(activation, filter=flt)
                with L.C7NContext(filter=flt):
                    return prgm.evaluate(activation)

            # "Also when the evaluation fails": the abort is injected at an arbitrary line *inside
            # the evaluation* (a frame of celpy/evaluation.py -- the evaluator, or Transpiler.evaluate
            # above the transpiled code -- is on the stack) or inside a helper called directly.  An abort inside the code that installs /
            # clears the context is not the evaluation failing -- no code can promise cleanup when
            # the cleanup itself is killed -- so such a point is skipped (the abort fires later).
            tracer = LineTracer(abort_at=op.get("abort"),
                                no_abort_in=("C7NContext.__enter__", "C7NContext.__exit__"),
                                abort_only_under=(("celpy/evaluation.py",) if mode != "direct"
                                                  else ("sim/c17.py::direct_call",)))
            try:
                with tracer:
                    fp, _ = kit.outcome(run)
                rec["fp"] = fp
            except SimAbort:
                rec["aborted"] = tracer.fired_site
            rec["steps"] = tracer.steps
            rec["filter_calls"] = flt.calls
            if L.C7N is not None:
                rec["post_context"] = getattr(getattr(L.C7N, "filter", None), "k", "?")
                L.C7N = None  # so that one leak is reported once, at the operation that leaked
            if len(sim.bad_context) > bad0:
                rec["bad_context"] = sim.bad_context[bad0:][:3]
            leaked = kit.host_leaks(L.FUNCTIONS)
            if leaked:
                rec["functions_table_leak"] = leaked[:6]
            records.append(rec)
            sim.current_k = sim.current_filter = None
    finally:
        urllib.request.urlopen = real_urlopen
    return {"records": records, "fired": sim.fired, "context_reads": sim.context_reads,
            "net_calls": sim.net_calls}


def _matches(fp: List[Any], want: List[Any]) -> bool:
    t = want[0]
    if t == "err":
        return fp[0] == "CELEvalError"
    if fp[0] != "value":
        return False
    cls, val = fp[1], fp[2]
    if t == "bool":
        return cls in ("BoolType", "bool") and bool(val) == want[1]
    if t == "int":
        return cls in ("IntType", "int") and val == want[1]
    if t == "str":
        return cls in ("StringType", "str") and val == want[1]
    if t == "null":
        return cls == "NoneType"
    return False


def execute(trace: Dict[str, Any]) -> Dict[str, Any]:
    res = exec_history(trace)
    recs = res["records"]
    violations: List[Dict[str, Any]] = []
    stats: Dict[str, int] = {}
    faulted_seen = False
    nontrivial = False
    for i, (op, rec) in enumerate(zip(trace["ops"], recs)):
        prog = trace["programs"][op["prog"]]
        kind, mode, k = rec["kind"], rec["mode"], rec["k"]
        stats[f"op_{mode}"] = stats.get(f"op_{mode}", 0) + 1
        stats["kind_ctx" if kind in CTX_KINDS else "kind_pure" if kind in PURE_KINDS else "kind_err"] = \
            stats.get("kind_ctx" if kind in CTX_KINDS else "kind_pure" if kind in PURE_KINDS else "kind_err", 0) + 1
        base = {"op_index": i, "mode": mode, "kind": kind, "k": k}
        if "pre_context" in rec:
            violations.append(dict(base, oracle="a-context-set-before-operation", detail=rec["pre_context"],
                                   sig={"oracle": "a-context-set-before-operation", "mode": mode}))
        if "post_context" in rec:
            violations.append(dict(base, oracle="a-context-not-cleared", left=rec["post_context"],
                                   outcome=rec.get("fp") or rec.get("aborted"),
                                   sig={"oracle": "a-context-not-cleared", "mode": mode}))
        if "bad_context" in rec:
            violations.append(dict(base, oracle="b-context-not-visible", detail=rec["bad_context"],
                                   sig={"oracle": "b-context-not-visible", "mode": mode}))
        fault = None
        if "aborted" in rec:
            fault = "abort"
            stats["fault_abort_fired"] = stats.get("fault_abort_fired", 0) + 1
        elif op.get("filter_raise_at") is not None and rec["filter_calls"] >= op["filter_raise_at"]:
            fault = "filter_raise"
        elif op.get("net_fault"):
            fault = "net"
        elif kind in ERR_KINDS:
            fault = "cel_error" if kind == "cel_error" else "helper_error"
            stats[f"fault_{fault}"] = stats.get(f"fault_{fault}", 0) + 1
        if "functions_table_leak" in rec:
            violations.append(dict(base, oracle="f-application-function-in-c7nlib-table",
                                   detail=rec["functions_table_leak"],
                                   sig={"oracle": "f-application-function-in-c7nlib-table"}))
        if fault is None and "fp" in rec:
            want = (expected_custom(prog["custom"], prog["params"]) if prog.get("custom")
                    else expected_of(kind, prog["params"], k, op["resource"]))
            if want == ["silent"]:
                stats["not_asserted_statement_silent"] = stats.get("not_asserted_statement_silent", 0) + 1
                continue
            if want == ["err"]:
                fault = "eval_error_expected"
                stats["fault_eval_error"] = stats.get("fault_eval_error", 0) + 1
            if not _matches(rec["fp"], want):
                stale = (kind in CTX_KINDS and rec["fp"][0] == "value"
                         and isinstance(rec["fp"][2], str) and str(k) not in rec["fp"][2])
                oracle = ("c-stale-filter" if stale else
                          "e-context-value" if kind in CTX_KINDS else "e-helper-value")
                violations.append(dict(base, oracle=oracle, got=rec["fp"], want=want,
                                       text=text_of(kind, prog["params"]), after_fault=faulted_seen,
                                       sig={"oracle": oracle, "kind": kind,
                                            "mode": "direct" if mode == "direct" else "cel"}))
            elif faulted_seen and want != ["err"]:
                nontrivial = True
                stats["probe_recovered_after_fault"] = stats.get("probe_recovered_after_fault", 0) + 1
        elif fault in ("cel_error", "helper_error") and "fp" in rec:
            if rec["fp"][0] != "CELEvalError" and not (mode == "direct" and rec["fp"][0] == "exception"
                                                       and rec["fp"][1] == "ValueError"):
                violations.append(dict(base, oracle="e-helper-value", got=rec["fp"], want=["err"],
                                       text=text_of(kind, prog["params"]),
                                       sig={"oracle": "e-helper-value", "kind": kind,
                                            "mode": "direct" if mode == "direct" else "cel"}))
        if fault is not None:
            faulted_seen = True
            if "fp" in rec and rec["fp"][0] == "exception":
                stats["fault_exception_escaped_evaluate"] = stats.get("fault_exception_escaped_evaluate", 0) + 1
    for kd, n in res["fired"].items():
        stats[f"fault_{kd}_fired"] = stats.get(f"fault_{kd}_fired", 0) + n
    stats["context_reads"] = res["context_reads"]
    stats["net_calls"] = res["net_calls"]
    stats["steps"] = sum(r.get("steps", 0) for r in recs)
    stats["class_" + trace["cfg"]["fault_class"]] = 1
    return {
        "digest": kit.digest([[r.get("fp"), r.get("aborted"), r.get("post_context")] for r in recs]),
        "violations": violations,
        "stats": stats,
        "nontrivial": nontrivial,
        "states": [],
        "transitions": [],
        "log": recs,
    }


def shrink(trace: Dict[str, Any], sig: Dict[str, Any], budget: int = 120) -> Dict[str, Any]:
    def fails(ops: List[Dict[str, Any]]) -> bool:
        if not ops or kit.expired():
            return False
        try:
            res = execute(dict(trace, ops=ops))
        except kit.HarnessError:
            return False
        return any(v["sig"] == sig for v in res["violations"])

    ops = kit.ddmin(trace["ops"], fails, budget=budget)
    for i in range(len(ops)):
        for f in ("abort", "filter_raise_at", "net_fault"):
            if f in ops[i]:
                cand = [dict(o) for o in ops]
                del cand[i][f]
                if fails(cand):
                    ops = cand
    used = sorted({o["prog"] for o in ops})
    remap = {p: j for j, p in enumerate(used)}
    programs = [trace["programs"][p] for p in used]
    ops = [dict(o, prog=remap[o["prog"]]) for o in ops]
    return dict(trace, programs=programs, ops=ops, minimised=True)


def sample_view(trace: Dict[str, Any]) -> Dict[str, Any]:
    return {"seed": trace["seed"], "cfg": trace["cfg"],
            "programs": [text_of(p["kind"], p["params"]) + (" [own " + p["custom"] + "()]" if p.get("custom") else "")
                         for p in trace["programs"]],
            "ops": [{k: v for k, v in o.items() if k != "resource"} for o in trace["ops"]]}


RULE = ("a case is a history of 2-12 evaluations / direct helper calls, each under a fresh fake "
        "Custodian filter F_k, through C7N_Interpreted_Runner.evaluate(filter=), `with C7NContext` "
        "around either runner, or a direct call; faults: CEL error, helper ValueError, fake filter "
        "raising an unmapped exception, urlopen faults (URLError, timeout, truncated gzip), abort at "
        "an arbitrary library line; non-trivial = a fault-free operation after a faulted one returned "
        "its reference value; distinct = distinct digests of (outcomes, abort sites, leaked contexts)")

ASSUMPTIONS = [
    "the Custodian filter, manager, clients and urllib.request.urlopen are in-process fakes; "
    "c7nlib, celpy, ipaddress, packaging, fnmatch, jmespath are real",
    "the helper half of the property is a pure function of its inputs: it is sampled against small "
    "independent reference models (sim/ref_c7n.py) only as the per-operation reference",
    "of nested contexts only the library's own integration pattern is exercised (an outer "
    "C7NContext around C7N_Interpreted_Runner.evaluate(filter=F_k)); threads sharing C7N are "
    "outside the stated quantifier",
    "inputs on which the statement is silent (host bits set in a network, non-numeric versions) "
    "are not asserted",
]

COMPONENTS = {
    "real": ["celpy.c7nlib (C7NContext, C7N_Interpreted_Runner, helper functions, FUNCTIONS / "
             "DECLARATIONS tables)", "celpy runners", "ipaddress", "packaging.version", "fnmatch",
             "pendulum", "zlib"],
    "stubbed": ["Custodian filter / manager / session / clients (FakeFilter ...)",
                "urllib.request.urlopen (simulated network with fault injection)"],
}
