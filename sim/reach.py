"""Which workload ingredients reach code that touches lasting state?

C16 draws, per workload, a few *featured* constructs (sim/gen.py: FEATURES) and configuration flags
(jq_mode, shadow_size) so that several threads of one run use the same, otherwise rare, library
function.  Drawn uniformly, a given construct is featured in about one workload in twenty.  This
module biases the draw towards the ingredients whose implementation -- in the tree under test --
touches state that outlives a call (sim/hotness.py), the analogue of placing faults inside the
operations that create in-flight state:

  * for every ingredient, four small single-thread probe workloads featuring it are run alone under
    the tracer (both runner classes, two seeds) and the shared-state functions they execute are
    recorded;
  * a function counts for an ingredient if the majority of its probes execute it (a construct that
    merely happens to be drawn by one random probe does not);
  * an ingredient is *boosted* in proportion to the scores of the functions that few ingredients
    reach (code that every expression executes, such as Activation.__init__, gives no preference).

The same count -- how many ingredients reach a function -- ranks the candidates of the targeted
policies (`rank:n` in sim/c16.py): a shared-state function that only one construct executes comes
before the ones every workload executes (parser construction, Activation.__init__).

Computed once per process from pristine module state and only from the code under test, so the
workload generated from a seed is a function of (seed, tree).  It only changes how often an
ingredient is featured; every ingredient stays reachable by the uniform draw.
"""

from __future__ import annotations

import collections
from typing import Any, Dict, List, Optional

from . import gen, kit

FLAGS = ["jq_mode", "shadow_size", "host"]
_BOOST: Optional[Dict[str, float]] = None
DETAIL: Dict[str, List[str]] = {}
POPULARITY: Dict[str, int] = {}  # shared-state function -> number of ingredients that reach it


def _probe_cfg(item: str, runner: str) -> Dict[str, Any]:
    cfg: Dict[str, Any] = {
        "n_threads": 1, "runners": [runner], "same_shape": False, "same_text": False,
        "same_env": None, "host_share": 0.8 if item == "host" else 0.0, "host_variants": True,
        "shadow_size": item == "shadow_size", "jq_mode": item == "jq_mode", "pre": None,
        "deep_share": 0.0, "features": [item] if item in gen.FEATURES else [],
        "bias": 1.0, "invalid_share": 0.0,
    }
    if cfg["jq_mode"]:
        cfg["same_env"] = {"runner": "C", "decls": "pkg", "package": "p"}
    return cfg


def boosts() -> Dict[str, float]:
    """ingredient -> weight (> 0 only for ingredients reaching rarely-reached shared-state code)."""
    global _BOOST
    if _BOOST is not None:
        return _BOOST
    from . import c16

    items = sorted(gen.FEATURES) + FLAGS
    reach: Dict[str, Dict[str, int]] = {}
    for item in items:
        votes: Dict[str, int] = collections.Counter()
        score: Dict[str, int] = {}
        n_probes = 0
        for runner in "IC":
            for k in range(2):
                rw = kit.rng(kit.H("reach", item, runner, k), "workload")
                thread = c16._gen_thread(rw, 0, _probe_cfg(item, runner), None, 1)
                try:
                    alone = c16._alone_uncached(thread)
                except Exception:  # noqa: BLE001 -- a probe that cannot run tells nothing
                    continue
                n_probes += 1
                for q, (_n, sc) in alone["hot"].items():
                    if sc >= 2:
                        votes[q] += 1
                        score[q] = max(score.get(q, 0), sc)
        reach[item] = {q: score[q] for q, v in votes.items() if n_probes and 2 * v >= n_probes}
    popularity = collections.Counter(q for r in reach.values() for q in r)
    POPULARITY.update(popularity)
    out: Dict[str, float] = {}
    for item in items:
        rare = {q: sc for q, sc in reach[item].items() if popularity[q] <= 3}
        if rare:
            out[item] = round(sum(sc * sc / popularity[q] for q, sc in rare.items()), 3)
            DETAIL[item] = sorted(rare)
    _BOOST = out
    return out
