"""The simulated host application for C14: instrumented stub callables of every kind the property
quantifies over.  This module plays the role of "the host's own module" (it is not part of celpy),
so the module-level defs below are exactly what an application would pass to Environment.program.

Every stub records (name, received argument fingerprints) in the current run's history and then
returns its scripted value or fires the fault planned for it.  celpy is looked up at call time
(reload isolation replaces the celpy modules between runs).
"""

from __future__ import annotations

import functools
import json
from typing import Any, Callable, Dict, List, Optional

# ---- per-run state (set by c14.run_program) ---------------------------------------------------
HISTORY: List[List[Any]] = []
TAGS: List[Any] = []  # parallel to HISTORY: which program's callable was reached (None = untagged)
FAULTS: Dict[str, Dict[str, Any]] = {}  # function name -> fault spec (site-keyed: 1 fn name per site)
FIRED: Dict[str, int] = {}

INT_FUNCS = {"f": 1, "g": 2, "h": 3, "f0": 4, "f1": 5, "f2": 6, "f3": 7, "f4": 8, "f5": 9}
BOOL_FUNCS = {"p": 1, "q": 2, "p0": 3, "p1": 4, "p2": 5}


class HostValueError(ValueError):
    """An application-defined refinement of ValueError (e.g. like json.JSONDecodeError)."""


class HostTypeError(TypeError):
    """An application-defined refinement of TypeError."""


def reset(faults: Dict[str, Dict[str, Any]]) -> None:
    HISTORY.clear()
    TAGS.clear()
    FAULTS.clear()
    FAULTS.update(faults)
    FIRED.clear()


def _canon_arg(a: Any) -> Any:
    from . import kit

    return kit.canon(a)


def base_name(name: str) -> str:
    return name


def scripted(name: str, args: List[Any]) -> Any:
    """The value the stub `name` returns for these (already CEL-typed) arguments."""
    from celpy import celtypes

    if name == "size":
        return celtypes.IntType(4242 + len(args[0]))
    if name == "contains":
        return celtypes.BoolType(not (args[1] in args[0]))
    if name == "startsWith":
        return celtypes.BoolType(not str(args[0]).startswith(str(args[1])))
    if name == "matches":
        return celtypes.BoolType(len(args[0]) == len(args[1]))
    fam = name.split("_")[0]
    ints = sum(int(a) for a in args if type(a).__name__ == "IntType")
    others = sum(1 for a in args if type(a).__name__ != "IntType")
    if fam in INT_FUNCS:
        return celtypes.IntType(1000 * INT_FUNCS[fam] + 7 * len(args) + ints + 13 * others)
    if fam in BOOL_FUNCS:
        return celtypes.BoolType((ints + 13 * others + len(args) + BOOL_FUNCS[fam]) % 2 == 0)
    raise AssertionError(name)


def dispatch(name: str, args: Any, tag: Any = None) -> Any:
    from celpy.evaluation import CELEvalError

    args = list(args)
    HISTORY.append([name, [_canon_arg(a) for a in args]])
    TAGS.append(tag)
    fault = FAULTS.get(name)
    if fault is not None:
        when = fault.get("when")
        hit = when is None or (len(args) > 0 and not isinstance(args[0], Exception)
                               and _is_int(args[0]) and int(args[0]) == when)
        if hit:
            FIRED[fault["kind"]] = FIRED.get(fault["kind"], 0) + 1
            kind = fault["kind"]
            if kind == "ret_err":
                return CELEvalError("host function says no", ValueError, ("host",))
            if kind == "raise_value":
                raise ValueError("host value error")
            if kind == "raise_type":
                raise TypeError("host type error")
            if kind == "raise_value_sub":
                raise HostValueError("host value error (subclass)")
            if kind == "raise_type_sub":
                raise HostTypeError("host type error (subclass)")
            if kind == "raise_value_noargs":
                raise ValueError()
            raise AssertionError(kind)
    return scripted(name, args)


def _is_int(a: Any) -> bool:
    return type(a).__name__ == "IntType"  # not BoolType (also an int subclass), not a Python bool


# ---- callable kinds -----------------------------------------------------------------------------
# (1) module-level defs in the host's module; CEL name == __name__ (usable in the list form)


def _mk_module_def(name: str) -> Callable[..., Any]:
    # the defs are created with exec so that each is a genuine module-level function of this
    # module: __module__ == "sim.peers", __qualname__ == name, reachable as sim.peers.<name>
    src = f"def {name}(*args):\n    return dispatch({name!r}, args)\n"
    ns = globals()
    exec(compile(src, __file__, "exec"), ns)
    return ns[name]


MODULE_DEFS: Dict[str, Callable[..., Any]] = {}
for _n in list(INT_FUNCS) + list(BOOL_FUNCS) + ["size", "contains", "startsWith", "matches"]:
    MODULE_DEFS[_n] = _mk_module_def(_n)


# (2) nested defs (closures)
def make_nested(name: str, tag: Any = None) -> Callable[..., Any]:
    def inner(*args: Any) -> Any:
        return dispatch(name, args, tag)

    inner.__name__ = name  # the list form keys by __name__; __qualname__ stays "<locals>"-qualified
    return inner


# (3) lambdas
def make_lambda(name: str, tag: Any = None) -> Callable[..., Any]:
    return lambda *args: dispatch(name, args, tag)


# (4) callable objects
class CallableObject:
    def __init__(self, name: str, tag: Any = None) -> None:
        self.name = name
        self.tag = tag

    def __call__(self, *args: Any) -> Any:
        return dispatch(self.name, args, self.tag)


# (4b) callable objects that are not hashable (a dataclass-like value object with __eq__)
class ValueLikeCallable:
    def __init__(self, name: str, tag: Any = None) -> None:
        self.name = name
        self.tag = tag

    def __eq__(self, other: Any) -> bool:
        return isinstance(other, ValueLikeCallable) and other.name == self.name

    __hash__ = None  # type: ignore[assignment]

    def __call__(self, *args: Any) -> Any:
        return dispatch(self.name, args, self.tag)


class Registry(dict):
    """A dict subclass (unhashable) whose bound method is handed out as the CEL function."""

    def __init__(self, name: str, tag: Any = None) -> None:
        super().__init__()
        self["name"] = name
        self["tag"] = tag

    def lookup(self, *args: Any) -> Any:
        return dispatch(self["name"], args, self["tag"])


# (5) bound methods
class Service:
    def __init__(self, name: str, tag: Any = None) -> None:
        self.name = name
        self.tag = tag

    def handler(self, *args: Any) -> Any:
        return dispatch(self.name, args, self.tag)


# (6) functools.partial objects
def _partial_target(name: str, tag: Any, *args: Any) -> Any:
    return dispatch(name, args, tag)


def operator_override(name: str) -> Callable[..., Any]:
    """An application-supplied replacement for a built-in operator function."""
    from celpy import celtypes
    from celpy.evaluation import CELEvalError

    if name == "_+_":
        def add(a: Any, b: Any) -> Any:
            for x in (a, b):
                if isinstance(x, CELEvalError):
                    return x  # operators get their operands as they are; an error stays an error
            HISTORY.append(["_+_", [_canon_arg(a), _canon_arg(b)]])
            return celtypes.IntType(int(a) + int(b) + 1000)
        return add
    if name == "_||_":
        return lambda a, b: celtypes.logical_or(a, b)
    if name == "_&&_":
        return lambda a, b: celtypes.logical_and(a, b)
    if name == "_?_:_":
        return lambda c, a, b: celtypes.logical_condition(c, a, b)
    raise ValueError(name)


def celpy_visible_def(name: str) -> Callable[..., Any]:
    """A module-level def in a module that celpy itself can see, like the functions of
    celpy.c7nlib that applications pass as functions=celpy.c7nlib.FUNCTIONS: the (fresh, throw-away)
    celpy package gets a sub-module `celpy.hostext` holding the stub.  The CompiledRunner can spell
    such a function as module.qualname text instead of going through the activation."""
    import sys
    import types

    celpy = sys.modules["celpy"]
    mod = sys.modules.get("celpy.hostext")
    if mod is None or getattr(celpy, "hostext", None) is not mod:
        mod = types.ModuleType("celpy.hostext")
        mod.__dict__["dispatch"] = dispatch
        sys.modules["celpy.hostext"] = mod
        celpy.hostext = mod  # type: ignore[attr-defined]
    if name not in mod.__dict__:
        src = f"def {name}(*args):\n    return dispatch({name!r}, args)\n"
        exec(compile(src, "<celpy.hostext>", "exec"), mod.__dict__)
        mod.__dict__[name].__module__ = "celpy.hostext"
    return mod.__dict__[name]


def make_callable(kind: str, name: str, tag: Any = None) -> Callable[..., Any]:
    """tag identifies the program the callable is supplied to (module-level defs are singletons of
    the host module and carry no tag)."""
    if kind == "celpy_visible_def":
        return celpy_visible_def(name)
    if kind == "module_def":
        return MODULE_DEFS[name]
    if kind == "nested_def":
        return make_nested(name, tag)
    if kind == "lambda":
        return make_lambda(name, tag)
    if kind == "instance":
        return CallableObject(name, tag)
    if kind == "unhashable_instance":
        return ValueLikeCallable(name, tag)
    if kind == "unhashable_bound_method":
        return Registry(name, tag).lookup
    if kind == "bound_method":
        return Service(name, tag).handler
    if kind == "partial":
        return functools.partial(_partial_target, name, tag)
    if kind == "named_instance":
        # a callable object that carries the CEL name as its own __name__ (usable in the list form)
        obj = CallableObject(name, tag)
        obj.__name__ = name  # type: ignore[attr-defined]
        return obj
    if kind == "named_partial":
        part = functools.partial(_partial_target, name, tag)
        part.__name__ = name  # type: ignore[attr-defined]
        return part
    raise ValueError(kind)


LIST_FORM_KINDS = ["module_def", "nested_def", "named_instance", "named_partial"]  # have a __name__
DICT_FORM_KINDS = ["module_def", "nested_def", "lambda", "instance", "bound_method", "partial",
                   "unhashable_instance", "unhashable_bound_method"]
