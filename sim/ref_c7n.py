"""Small, independent reference models for the Custodian helper functions (C17, helper half).
Written from the property statement, not from celpy.c7nlib; no ipaddress / fnmatch / packaging."""

from __future__ import annotations

from typing import Any, Dict, List, Optional, Tuple


def intersect(a: List[Any], b: List[Any]) -> bool:
    return any(x in b for x in a)


def difference(a: List[Any], b: List[Any]) -> bool:
    return any(x not in b for x in a)


def unique_size(a: List[Any]) -> int:
    out: List[Any] = []
    for x in a:
        if x not in out:
            out.append(x)
    return len(out)


def normalize(s: str) -> str:
    return s.strip().lower()


# ---- shell patterns over a small alphabet -------------------------------------------------------


def glob(text: str, pat: str) -> bool:
    """*, ?, [set], [!set]; a '[' without closing ']' is a literal '['."""

    def m(ti: int, pi: int) -> bool:
        while pi < len(pat):
            c = pat[pi]
            if c == "*":
                # collapse runs of *
                while pi < len(pat) and pat[pi] == "*":
                    pi += 1
                if pi == len(pat):
                    return True
                return any(m(k, pi) for k in range(ti, len(text) + 1))
            if ti >= len(text):
                return False
            if c == "?":
                ti += 1
                pi += 1
                continue
            if c == "[":
                j = pi + 1
                if j < len(pat) and pat[j] == "!":
                    j += 1
                if j < len(pat) and pat[j] == "]":
                    j += 1
                while j < len(pat) and pat[j] != "]":
                    j += 1
                if j >= len(pat):
                    if text[ti] != "[":
                        return False
                    ti += 1
                    pi += 1
                    continue
                body = pat[pi + 1 : j]
                neg = body.startswith("!")
                if neg:
                    body = body[1:]
                hit = text[ti] in body
                if hit == neg:
                    return False
                ti += 1
                pi = j + 1
                continue
            if text[ti] != c:
                return False
            ti += 1
            pi += 1
        return ti == len(text)

    return m(0, 0)


# ---- IPv4 -------------------------------------------------------------------------------------


def ip_int(dotted: str) -> int:
    a, b, c, d = (int(x) for x in dotted.split("."))
    return (a << 24) | (b << 16) | (c << 8) | d


def int_ip(n: int) -> str:
    return ".".join(str((n >> s) & 255) for s in (24, 16, 8, 0))


def net_contains(net: str, other: str) -> bool:
    """net = 'a.b.c.d/p' (canonical); other = address or canonical network."""
    addr, p = net.split("/")
    p = int(p)
    base = ip_int(addr)
    mask = ((1 << 32) - 1) ^ ((1 << (32 - p)) - 1) if p else 0
    if "/" in other:
        oaddr, op = other.split("/")
        op = int(op)
        return op >= p and (ip_int(oaddr) & mask) == base
    return (ip_int(other) & mask) == base


def prefix_len(net: str) -> int:
    return int(net.split("/")[1])


# ---- versions ---------------------------------------------------------------------------------


def version_key(v: str) -> Tuple[int, ...]:
    parts = [int(x) for x in v.split(".")]
    while parts and parts[-1] == 0:
        parts.pop()
    return tuple(parts)


def version_cmp(a: str, b: str) -> int:
    ka, kb = version_key(a), version_key(b)
    return (ka > kb) - (ka < kb)


# ---- tags / ARNs --------------------------------------------------------------------------------


def key(tags: List[Dict[str, str]], k: str) -> Optional[str]:
    for t in tags:
        if t.get("Key") == k:
            return t.get("Value")
    return None


def marked_key(tags: List[Dict[str, str]], k: str) -> Optional[Dict[str, str]]:
    v = key(tags, k)
    if v is None or ":" not in v:
        return None
    msg, tail = v.rsplit(":", 1)
    tail = tail.strip()
    if "@" not in tail:
        return None
    action, date = tail.split("@", 1)
    return {"message": msg, "action": action, "action_date": date}


ARN_FIELDS_5 = ("partition", "service", "region", "account-id", "resource-id")
ARN_FIELDS_6 = ("partition", "service", "region", "account-id", "resource-type", "resource-id")


def arn_split(arn: str, field: str) -> Any:
    parts = arn.split(":")
    if parts[0] != "arn":
        return "ERR"
    fields = parts[1:]
    names = {5: ARN_FIELDS_5, 6: ARN_FIELDS_6}.get(len(fields))
    if names is None or field not in names:
        return "SILENT"  # the statement does not say what a field absent from this shape yields
    return fields[names.index(field)]
