"""./check <ID> [--tier quick|thorough] [--replay FILE] [--src DIR] [--runs N] [--wall S]"""
import argparse
import os
import sys

VERIF = os.path.dirname(os.path.dirname(os.path.abspath(__file__)))


def main() -> int:
    ap = argparse.ArgumentParser()
    ap.add_argument("prop")
    ap.add_argument("--tier", default=os.environ.get("VERIF_TIER", "quick"),
                    choices=["quick", "thorough"])
    ap.add_argument("--replay")
    ap.add_argument("--src")
    ap.add_argument("--runs", type=int)
    ap.add_argument("--wall", type=float)
    args = ap.parse_args()
    if args.src:
        os.environ["VERIF_SRC"] = os.path.abspath(args.src)
    if args.runs:
        os.environ["VERIF_RUNS"] = str(args.runs)
    if args.wall:
        os.environ["VERIF_WALL"] = str(args.wall)
    if os.environ.get("PYTHONHASHSEED") is None:
        os.environ["PYTHONHASHSEED"] = "0"
        os.execve(sys.executable, [sys.executable, "-B"] + sys.argv, os.environ)
    sys.path.insert(0, VERIF)
    sys.dont_write_bytecode = True
    from sim import driver, registry

    prop = args.prop.upper()
    if prop == "SELFTEST":
        from sim import selftest

        return selftest.main(args.tier)
    if prop not in registry.CHECKS:
        print(f"unknown property {prop}; claimed: {sorted(registry.CHECKS)}", file=sys.stderr)
        return 2
    spec = registry.CHECKS[prop]
    if args.replay:
        return driver.replay(spec["module"], args.replay)
    t = spec[args.tier]
    rc = driver.run_check(spec["module"], args.tier, t["runs"], chunk=t.get("chunk", 8),
                          wall=t.get("wall"))
    if rc == 0 and "post" in spec:
        import importlib

        rc = importlib.import_module(spec["module"]).post_check(args.tier)
    return rc


if __name__ == "__main__":
    try:
        sys.exit(main())
    except KeyboardInterrupt:
        sys.exit(2)
