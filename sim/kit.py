"""Common machinery of the deterministic simulator: seeds, traces, process isolation, fingerprints,
minimisation, batch driver, evidence.

Nothing in here draws from a PRNG or reads a clock on a path that influences a simulated run;
wall-clock is read only for budgets and evidence, and never inside a child that executes a trace.
"""

from __future__ import annotations

import hashlib
import json
import os
import random
import re
import select
import signal
import sys
import time
import traceback
from collections import Counter
from typing import Any, Callable, Dict, Iterable, List, Optional, Sequence, Tuple

VERIF = os.path.dirname(os.path.dirname(os.path.abspath(__file__)))
SRC = os.environ.get("VERIF_SRC", "/repo/src")
DEFAULT_SEED = 20260923
CPUS = int(os.environ.get("VERIF_WORKERS", "0")) or min(16, os.cpu_count() or 1)


# --------------------------------------------------------------------------------------------
# seeds


def H(*parts: Any) -> int:
    """Stable 63-bit hash of the parts (independent of PYTHONHASHSEED)."""
    h = hashlib.sha256(json.dumps(parts, sort_keys=True, default=str).encode()).digest()
    return int.from_bytes(h[:8], "big") >> 1


def rng(seed: int, label: str) -> random.Random:
    """An independent sub-stream of the run seed."""
    return random.Random(H(seed, label))


def digest(obj: Any) -> str:
    # key order is significant (bindings, documents): two traces that differ in it are different
    return hashlib.sha256(json.dumps(obj, default=str).encode()).hexdigest()[:16]


def batch_seed() -> int:
    try:
        return int(os.environ.get("VERIF_SEED", DEFAULT_SEED))
    except ValueError:
        return H(os.environ.get("VERIF_SEED"))


def ensure_hashseed() -> None:
    """Re-exec under PYTHONHASHSEED=0 unless a hash seed is already fixed."""
    if os.environ.get("PYTHONHASHSEED") is None:
        env = dict(os.environ, PYTHONHASHSEED="0")
        os.execve(sys.executable, [sys.executable] + sys.argv, env)


# --------------------------------------------------------------------------------------------
# the system under test


_celpy_loaded = False
_CODES: Dict[str, Any] = {}
_CELPY_MODULES = ["celpy", "celpy.celtypes", "celpy.celparser", "celpy.evaluation", "celpy.adapter",
                  "celpy.c7nlib", "celpy.__main__"]
_RECURSION_DEFAULT = sys.getrecursionlimit()
HOTNESS: Any = None
FRESH_COUNT = 0


class _CachedLoader:
    def __init__(self, code: Any) -> None:
        self.code = code

    def create_module(self, spec: Any) -> Any:
        return None

    def exec_module(self, module: Any) -> None:
        # While celpy's module code runs, `import threading` / `from threading import Lock` yield
        # scheduler-aware locks (sim/sched.py) so that a lock the library might create can be held
        # across a yield point without hanging the baton-passing scheduler.
        from . import sched

        real = sys.modules.get("threading")
        sys.modules["threading"] = sched.ThreadingProxy()  # type: ignore[assignment]
        try:
            exec(self.code, module.__dict__)
        finally:
            if real is not None:
                sys.modules["threading"] = real


class _CelpyFinder:
    """Serves celpy modules from code objects compiled once per process from SRC, so that a fresh
    set of module objects costs milliseconds."""

    @staticmethod
    def find_spec(name: str, path: Any = None, target: Any = None) -> Any:
        ent = _CODES.get(name)
        if ent is None:
            return None
        import importlib.util

        code, origin, locs = ent
        return importlib.util.spec_from_file_location(
            name, origin, loader=_CachedLoader(code), submodule_search_locations=locs)


def load_celpy() -> None:
    """Import celpy from SRC (the working tree) once, remember the compiled module code, silence
    logging.  After this, fresh_celpy() yields the *pristine template state*: celpy imported, no
    Environment ever created."""
    global _celpy_loaded
    if _celpy_loaded:
        return
    if SRC in sys.path:
        sys.path.remove(SRC)
    sys.path.insert(0, SRC)
    import importlib
    import logging

    for n in _CELPY_MODULES:
        importlib.import_module(n)
    import celpy

    got = os.path.realpath(os.path.dirname(celpy.__file__))
    want = os.path.realpath(os.path.join(SRC, "celpy"))
    if got != want:
        raise HarnessError(f"celpy imported from {got}, expected {want}")
    for n in [m for m in sys.modules if m == "celpy" or m.startswith("celpy.")]:
        m = sys.modules[n]
        spec = m.__spec__
        _CODES[n] = (spec.loader.get_code(n), spec.origin, spec.submodule_search_locations)
    sys.meta_path.insert(0, _CelpyFinder)
    # celpy logs through logger.error() inside Transpiler.evaluate; a logging handler lock held
    # across a yield point would be a lock the scheduler does not model.
    logging.disable(logging.CRITICAL)
    _patch_lark()
    _celpy_loaded = True
    # the static hotness analysis (sim/hotness.py) looks at module- and class-level state: it has to
    # see the *pristine* state (e.g. CELParser.CEL_PARSER still None), or its verdicts -- and with
    # them the schedules of focus / hot policies -- would depend on what the process ran before
    global HOTNESS
    from . import hotness

    HOTNESS = hotness.Hotness()


# ---- fast construction of identical Lark parsers ------------------------------------------------
# Every pristine run builds one or two Lark parsers (LALR table construction: ~90 ms each, >90 % of
# the cost of a C16 / C05 run).  lark itself can save a constructed parser and load it again
# (Lark.save / Lark._load, the mechanism behind its cache= option); loading takes ~7 ms and yields a
# parser that produces identical trees (checked by the self-test against the real constructor).
# The simulator uses that for *construction only*: the first Lark(...) with a given grammar and
# options in a process runs the real constructor, later ones load its serialisation with the
# caller's own tree_class and lexer callbacks.  FAST_LARK = False (VERIF_REAL_LARK=1, and a seeded
# share of runs) uses the real constructor throughout.
FAST_LARK = os.environ.get("VERIF_REAL_LARK") != "1"
_LARK_BLOBS: Dict[str, Any] = {}
_lark_patched = False
LARK_STATS = {"built": 0, "loaded": 0}


def _lark_load(self: Any, blob: bytes, names: Dict[str, Any], kwargs: Dict[str, Any]) -> None:
    """Lark._load (lark 1.3.1) with one extra step: rule names get their Token type back before
    the tree builder is created, so that the loaded parser is indistinguishable from a built one."""
    import pickle

    from lark import Token
    from lark.grammar import Rule
    from lark.lark import (_LOAD_ALLOWED_OPTIONS, ConfigurationError, LarkOptions,
                           _deserialize_parsing_frontend, _validate_frontend_args)
    from lark.lexer import TerminalDef
    from lark.load_grammar import Grammar
    from lark.utils import SerializeMemoizer

    d = pickle.loads(blob)
    memo = SerializeMemoizer.deserialize(d["memo"], {"Rule": Rule, "TerminalDef": TerminalDef}, {})
    data = d["data"]
    if "grammar" in data:
        self.grammar = Grammar.deserialize(data["grammar"], memo)
    options = dict(data["options"])
    if (set(kwargs) - _LOAD_ALLOWED_OPTIONS) & set(LarkOptions._defaults):
        raise ConfigurationError("option not allowed when loading a parser")
    options.update(kwargs)
    self.options = LarkOptions.deserialize(options, memo)
    self.rules = [Rule.deserialize(r, memo) for r in data["rules"]]
    for r in self.rules:
        ty = names.get(str(r.origin.name))
        if ty is not None and not isinstance(r.origin.name, Token):
            r.origin.name = Token(ty, str(r.origin.name))
    self.source_path = "<deserialized>"
    _validate_frontend_args(self.options.parser, self.options.lexer)
    self.lexer_conf = self._deserialize_lexer_conf(data["parser"], memo, self.options)
    self.terminals = self.lexer_conf.terminals
    self._prepare_callbacks()
    self._terminals_dict = {t.name: t for t in self.terminals}
    self.parser = _deserialize_parsing_frontend(data["parser"], memo, self.lexer_conf,
                                                self._callbacks, self.options)


def _patch_lark() -> None:
    global _lark_patched
    if _lark_patched:
        return
    import io

    import lark

    real_init = lark.Lark.__init__
    passthrough = ("tree_class", "lexer_callbacks", "g_regex_flags", "debug", "propagate_positions")

    def init(self: Any, grammar: Any, **options: Any) -> None:
        if not FAST_LARK or not isinstance(grammar, str) or options.get("cache"):
            LARK_STATS["built"] += 1
            return real_init(self, grammar, **options)
        try:
            key = digest([grammar, sorted((k, repr(v)) for k, v in options.items()
                                          if k not in ("tree_class", "lexer_callbacks"))])
        except Exception:  # noqa: BLE001
            LARK_STATS["built"] += 1
            return real_init(self, grammar, **options)
        ent = _LARK_BLOBS.get(key)
        if ent is None:
            real_init(self, grammar, **options)
            LARK_STATS["built"] += 1
            buf = io.BytesIO()
            self.save(buf)
            # lark serialises rule names with str(); a constructed parser has Token('RULE', name)
            # there (it ends up as Tree.data and in celpy's error texts): remember the token types
            names = {str(r.origin.name): getattr(r.origin.name, "type", None) for r in self.rules}
            _LARK_BLOBS[key] = (buf.getvalue(), names)
            return None
        LARK_STATS["loaded"] += 1
        _lark_load(self, ent[0], ent[1], {k: options[k] for k in passthrough if k in options})
        return None

    lark.Lark.__init__ = init  # type: ignore[method-assign]
    _lark_patched = True


def fresh_celpy() -> Any:
    """Reload isolation: throw away every celpy module object and execute the module code again.
    All state held in celpy modules, classes, functions, closures and caches is gone; what celpy
    pushes into the interpreter itself is reset explicitly (recursion limit).  Third-party
    libraries (lark, re2, pendulum) keep their (pure) caches.

    This replaces fork-per-run isolation: in this sandbox a forked child that builds the Lark
    parser takes ~3000 copy-on-write page faults, which cost ~10x more under 16-way parallelism
    (measured: 10 references 1.5 s alone, 18 s with 16 processes), so forking does not scale."""
    global FRESH_COUNT
    load_celpy()
    import importlib

    for n in [m for m in sys.modules if m == "celpy" or m.startswith("celpy.")]:
        del sys.modules[n]
    for n in _CELPY_MODULES:
        importlib.import_module(n)
    sys.setrecursionlimit(_RECURSION_DEFAULT)
    FRESH_COUNT += 1
    return sys.modules["celpy"]


class HarnessError(Exception):
    """The machinery failed (timeout, nondeterminism, crash).  Never a VIOLATION, never exit 0."""


# --------------------------------------------------------------------------------------------
# process isolation


def fork_call(fn: Callable[..., Any], *args: Any, timeout: float = 60.0) -> Any:
    """Run fn(*args) in a forked child; return its JSON-able result.  Raises HarnessError on
    timeout / crash / exception in the harness part of the child."""
    r, w = os.pipe()
    sys.stdout.flush()
    sys.stderr.flush()
    pid = os.fork()
    if pid == 0:
        code = 0
        try:
            os.close(r)
            try:
                import faulthandler

                faulthandler.enable()
                faulthandler.dump_traceback_later(max(1.0, timeout - 0.5), exit=False)
            except Exception:
                pass
            try:
                res = fn(*args)
                data = json.dumps({"ok": res}, default=_json_default)
            except BaseException:
                data = json.dumps({"harness_error": traceback.format_exc()})
            data_b = data.encode()
            off = 0
            while off < len(data_b):
                off += os.write(w, data_b[off : off + 65536])
            os.close(w)
        except BaseException:
            code = 3
        finally:
            os._exit(code)
    os.close(w)
    chunks: List[bytes] = []
    deadline = time.monotonic() + timeout
    timed_out = False
    try:
        while True:
            left = deadline - time.monotonic()
            if left <= 0:
                timed_out = True
                break
            ready, _, _ = select.select([r], [], [], left)
            if not ready:
                timed_out = True
                break
            b = os.read(r, 1 << 16)
            if not b:
                break
            chunks.append(b)
    finally:
        os.close(r)
        if timed_out:
            try:
                os.kill(pid, signal.SIGKILL)
            except ProcessLookupError:
                pass
        _, status = os.waitpid(pid, 0)
    if timed_out:
        raise HarnessError(f"child timed out after {timeout}s in {getattr(fn, '__name__', fn)}")
    raw = b"".join(chunks)
    if not raw:
        raise HarnessError(f"child died without a result (wait status {status})")
    msg = json.loads(raw)
    if "harness_error" in msg:
        raise HarnessError("exception in child harness:\n" + msg["harness_error"])
    return msg["ok"]


def _json_default(o: Any) -> Any:
    if isinstance(o, (set, frozenset)):
        return sorted(o, key=repr)
    if isinstance(o, bytes):
        return {"__bytes__": o.hex()}
    if isinstance(o, Counter):
        return dict(o)
    return repr(o)


def host_leaks(table: Dict[str, Any]) -> List[str]:
    """Names in a library-wide function table that are bound to a callable of the *host* (the
    simulator's stub modules sim.*): a program's functions leaked out of that program.  (The table
    itself may legitimately change, e.g. lazy registration of built-ins.)"""
    out = []
    for k, v in table.items():
        mod = getattr(v, "__module__", None)
        if not isinstance(mod, str):
            mod = getattr(type(v), "__module__", "")
        fn = getattr(v, "func", None)  # functools.partial
        if mod.startswith("sim.") or (fn is not None and str(getattr(fn, "__module__", "")).startswith("sim.")):
            out.append(k)
        elif getattr(type(v), "__module__", "").startswith("sim.") or (
                hasattr(v, "__self__") and getattr(type(v.__self__), "__module__", "").startswith("sim.")):
            out.append(k)
    return sorted(out)


def in_fresh_thread(fn: Callable[..., Any], *args: Any) -> Any:
    """Run fn(*args) in a brand-new thread and return its result (exceptions are re-raised).  A run
    must not inherit interpreter thread state from the run before it: in CPython 3.12.1 a thread
    that hit the C recursion limit does not always get its remaining budget back."""
    import threading

    box: Dict[str, Any] = {}

    def body() -> None:
        try:
            box["ok"] = fn(*args)
        except BaseException as ex:  # noqa: BLE001
            box["ex"] = ex

    t = threading.Thread(target=body, name="sim-run", daemon=True)
    t.start()
    t.join()
    if "ex" in box:
        raise box["ex"]
    return box["ok"]


# --------------------------------------------------------------------------------------------
# outcome fingerprints

_ADDR = re.compile(r"0x[0-9a-fA-F]+")


def canon(v: Any, depth: int = 0) -> Any:
    """Canonical JSON-able form of a CEL value, with its class name."""
    import math

    cls = type(v).__name__
    if depth > 12:
        return [cls, "..."]
    if v is None:
        return ["NoneType", None]
    if isinstance(v, bool):
        return [cls, bool(v)]
    if isinstance(v, float):
        if math.isnan(v):
            return [cls, "nan"]
        if math.isinf(v):
            return [cls, "inf" if v > 0 else "-inf"]
        return [cls, repr(float(v))]
    if isinstance(v, int):
        return [cls, int(v)]
    if isinstance(v, str):
        return [cls, str(v)]
    if isinstance(v, bytes):
        return [cls, bytes(v).hex()]
    if isinstance(v, (list, tuple)):
        return [cls, [canon(x, depth + 1) for x in v]]
    if isinstance(v, dict):
        items = [[canon(k, depth + 1), canon(x, depth + 1)] for k, x in v.items()]
        items.sort(key=lambda kv: json.dumps(kv[0], sort_keys=True))
        return [cls, items]
    if isinstance(v, type):
        return ["type", v.__name__]
    if isinstance(v, BaseException):
        return [cls, err_text(v)]
    return [cls, _ADDR.sub("0x", repr(v))[:200]]


def err_text(ex: BaseException) -> str:
    """Stable prefix of an error: its first string argument without addresses and without the
    repr(Activation) that celpy embeds after '(in activation'."""
    arg = ex.args[0] if ex.args else ""
    if not isinstance(arg, str):
        arg = repr(arg)
    arg = _ADDR.sub("0x", arg)
    for cut in (" (in activation", " (in container"):
        i = arg.find(cut)
        if i >= 0:
            arg = arg[:i]
    return arg[:160]


def _err_part(a: Any, depth: int = 0) -> Any:
    if depth > 5:
        return "..."
    if isinstance(a, str):
        a = _ADDR.sub("0x", a)
        for cut in (" (in activation", " (in container"):
            i = a.find(cut)
            if i >= 0:
                a = a[:i]
        return a[:200]
    if isinstance(a, type):
        return a.__name__
    if isinstance(a, BaseException):
        return [type(a).__name__, [_err_part(x, depth + 1) for x in a.args[:8]]]
    if isinstance(a, (tuple, list)):
        return [_err_part(x, depth + 1) for x in a[:8]]
    if a is None or isinstance(a, (bool, int, float)):
        return repr(a)
    return "<" + type(a).__name__ + ">"


def err_detail(ex: BaseException) -> str:
    """Digest of *everything* an exception carries in its args (nested exceptions, classes, texts;
    without addresses and embedded activations): what a caller that inspects the error sees."""
    try:
        return digest(_err_part(ex))
    except RecursionError:
        return "<unprintable>"


def same_outcome(a: Any, b: Any) -> bool:
    """Fingerprint equality, except that two *failures* of which at least one is the interpreter
    running out of stack count as the same outcome: at the edge of the recursion limit a few
    frames more or less (the simulator's own callback frames among them) decide whether the
    RecursionError surfaces as itself or is swallowed and replaced by some library error further
    up.  A value on one side and a failure on the other is still a difference."""
    if a == b:
        return True
    if not a or not b or a[0] == "value" or b[0] == "value":
        return False
    return a[:2] == ["exception", "RecursionError"] or b[:2] == ["exception", "RecursionError"]


def _involves_recursion_error(ex: BaseException) -> bool:
    """Did the interpreter's stack run out somewhere underneath this error?  celpy turns exceptions
    raised inside an evaluation into CELEvalError(text, exception class, exception args); whether a
    RecursionError surfaces as itself or wrapped like that depends on the exact frame in which it
    is raised."""
    seen = 0
    cur: Optional[BaseException] = ex
    while cur is not None and seen < 8:
        if isinstance(cur, RecursionError):
            return True
        for a in getattr(cur, "args", ()) or ():
            if a is RecursionError or isinstance(a, RecursionError):
                return True
            if isinstance(a, str) and "maximum recursion depth" in a:
                return True
            if isinstance(a, tuple) and any(isinstance(x, str) and "maximum recursion depth" in x
                                            for x in a):
                return True
        cur = cur.__cause__ or cur.__context__
        seen += 1
    return False


def outcome(fn: Callable[[], Any], value: bool = True, detail: bool = False) -> Tuple[List[Any], Any]:
    """Run fn; return (fingerprint, value-or-exception).  Fingerprint = [kind, class, canonical];
    with value=False a successful result is fingerprinted as ["value"] only."""
    try:
        v = fn()
    except Exception as ex:  # noqa: BLE001
        from celpy.evaluation import CELEvalError

        kind = "CELEvalError" if isinstance(ex, CELEvalError) else "exception"
        try:
            text = err_text(ex)
        except RecursionError:
            text = "<unprintable>"
        if (isinstance(ex, RecursionError) or (isinstance(ex, RuntimeError) and "recursion" in text.lower())
                or _involves_recursion_error(ex)):
            # where exactly the interpreter's stack runs out (and in which wrapping the error
            # surfaces) depends on a few frames more or less, including the simulator's own:
            # all of it is one outcome
            return ["exception", "RecursionError", ""], ex
        if detail:
            return [kind, type(ex).__name__, text, err_detail(ex)], ex
        return [kind, type(ex).__name__, text], ex
    if not value:
        return ["value"], v
    try:
        return ["value"] + canon(v), v
    except RecursionError:
        return ["value", type(v).__name__, "<too deep to print>"], v


# --------------------------------------------------------------------------------------------
# delta debugging

_DEADLINE = [float("inf")]


def set_deadline(seconds_from_now: Optional[float]) -> None:
    """Wall budget for one minimisation (wall-clock only bounds the search, never decides a run)."""
    _DEADLINE[0] = float("inf") if seconds_from_now is None else time.monotonic() + seconds_from_now


def expired() -> bool:
    return time.monotonic() > _DEADLINE[0]



def ddmin(items: Sequence[Any], test: Callable[[List[Any]], bool], budget: int = 200) -> List[Any]:
    """Classic ddmin: smallest sub-list (1-minimal within budget) for which test() stays True."""
    items = list(items)
    n = 2
    calls = 0
    while len(items) >= 1 and calls < budget:
        chunk = max(1, len(items) // n)
        subsets = [items[i : i + chunk] for i in range(0, len(items), chunk)]
        reduced = False
        # try complements first (removing one chunk)
        for i in range(len(subsets)):
            comp = [x for j, s in enumerate(subsets) if j != i for x in s]
            calls += 1
            if test(comp):
                items = comp
                n = max(n - 1, 2)
                reduced = True
                break
            if calls >= budget:
                break
        if not reduced:
            if chunk == 1:
                break
            n = min(len(items), n * 2)
    return items


# --------------------------------------------------------------------------------------------
# known findings


def load_known_findings() -> List[Dict[str, Any]]:
    path = os.path.join(VERIF, "known_findings.json")
    try:
        with open(path) as f:
            return json.load(f).get("findings", [])
    except FileNotFoundError:
        return []


def match_known(prop: str, signature: Dict[str, Any]) -> Optional[Dict[str, Any]]:
    for f in load_known_findings():
        if f.get("property") != prop:
            continue
        m = f.get("match", {})
        if m and all(signature.get(k) == v for k, v in m.items()):
            return f
    return None


# --------------------------------------------------------------------------------------------
# evidence


def write_evidence(prop: str, tier: str, seed: int, coverage: Dict[str, Any], wall: float,
                   violations: int, assumptions: List[str]) -> str:
    edir = os.environ.get("VERIF_EVIDENCE_DIR")
    if not edir:
        # evidence under /verif/evidence describes /repo itself; runs against a scratch copy
        # (--src, sensitivity suite) must not overwrite it
        edir = (os.path.join(VERIF, "evidence") if os.path.realpath(SRC) == "/repo/src"
                else "/tmp/verif_evidence_scratch")
    path = os.path.join(edir, f"{prop}.json")
    os.makedirs(os.path.dirname(path), exist_ok=True)
    coverage = dict(coverage, source_tree=SRC)
    doc = {
        "property_id": prop,
        "tier": tier,
        "seed": seed,
        "level": "exploration",
        "coverage": coverage,
        "assumptions": assumptions,
        "wall_s": round(wall, 2),
        "violations": violations,
    }
    tmp = path + ".tmp"
    with open(tmp, "w") as f:
        json.dump(doc, f, indent=1, sort_keys=True, default=_json_default)
    os.replace(tmp, path)
    return path


def write_replay(prop: str, seed: int, trace: Dict[str, Any], failure: Dict[str, Any]) -> str:
    d = os.environ.get("VERIF_REPLAY_DIR") or os.path.join(VERIF, "replays")
    os.makedirs(d, exist_ok=True)
    path = os.path.join(d, f"{prop}-{seed}.json")
    n = 1
    while path in _REPLAYS_WRITTEN:  # several different violations found in one run
        n += 1
        path = os.path.join(d, f"{prop}-{seed}-{n}.json")
    _REPLAYS_WRITTEN.add(path)
    with open(path, "w") as f:
        # (no sort_keys: the order of keys inside documents / bindings is part of the trace)
        json.dump({"property": prop, "seed": seed, "trace": trace, "failure": failure}, f,
                  indent=1, default=_json_default)
    return path


_REPLAYS_WRITTEN: set = set()


def merge_counts(dst: Dict[str, int], src: Dict[str, int]) -> None:
    for k, v in src.items():
        dst[k] = dst.get(k, 0) + v
