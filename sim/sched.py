"""Seeded baton-passing scheduler for real threads, line-level pre-emption through sys.monitoring LINE events,
abort injection, and the schedule policies (pct, random, hot, roundrobin, explicit).

Exactly one worker thread is runnable at any time: every worker parks on its own semaphore and is
released by whoever holds the baton.  The OS scheduler and the GIL therefore decide nothing; the
policy (seeded) decides at every yield point.  Yield points are `line` events in frames whose code
lives under <SRC>/celpy/ or in the "<string>" module of a transpiled program (and under lark/ when
trace_lark is set).
"""

from __future__ import annotations

import os
import random
import sys
import threading
from typing import Any, Callable, Dict, List, Optional, Tuple

from . import kit


class SimAbort(BaseException):
    """Injected asynchronous abort (models KeyboardInterrupt / CancelledError / greenlet timeout)."""


class SimLivelock(BaseException):
    """Raised in workers once the global step cap is exceeded."""


HOT_QUALNAMES = {
    "Transpiler.evaluate",
    "Transpiler.transpile",
    "CELParser.__init__",
    "CELParser.parse",
    "NameContainer.load_values",
    "NameContainer.load_annotations",
    "Activation.clone",
    "Activation.__init__",
    "NameContainer.clone",
    "Referent.clone",
    "Phase1Transpiler.visit",
    "Phase1Transpiler.func_name",
    "C7NContext.__enter__",
    "C7NContext.__exit__",
    "C7N_Interpreted_Runner.evaluate",
    "Environment.__init__",
    "Environment.program",
    "CompiledRunner.__init__",
    "CompiledRunner.evaluate",
    "InterpretedRunner.evaluate",
    "Evaluator.set_activation",
    "Evaluator.evaluate",
    "result",
}

_CELPY_DIR = os.path.realpath(os.path.join(kit.SRC, "celpy")) + os.sep


class FrameFilter:
    """Decides, per code object (cached by filename), whether a frame is pre-emptible, and its tag."""

    def __init__(self, trace_lark: bool = False) -> None:
        self.trace_lark = trace_lark
        self._cache: Dict[str, Optional[str]] = {}

    def tag(self, filename: str) -> Optional[str]:
        try:
            return self._cache[filename]
        except KeyError:
            pass
        t: Optional[str]
        if filename == "<string>":
            t = "S"
        elif os.path.realpath(filename).startswith(_CELPY_DIR):
            t = "C"
        elif self.trace_lark and (os.sep + "lark" + os.sep) in filename:
            t = "L"
        else:
            t = None
        self._cache[filename] = t
        return t


def site_of(code: Any, line: int, tag: str) -> str:
    return f"{tag}:{code.co_qualname}:{line - code.co_firstlineno}"


# sys.monitoring (PEP 669) is used instead of sys.settrace: a LINE callback that returns DISABLE
# for a location outside celpy switches that location off for good, so lark / stdlib code runs at
# full speed (measured: Lark() build 0.095 s vs 0.325 s under sys.settrace), while every line of
# celpy and of transpiled "<string>" code still reports.
_MON = sys.monitoring
TOOL_ID = 4
_tool_claimed = False


def _claim_tool() -> None:
    global _tool_claimed
    if not _tool_claimed:
        if _MON.get_tool(TOOL_ID) is None:
            _MON.use_tool_id(TOOL_ID, "verif-sim")
        _tool_claimed = True


# --------------------------------------------------------------------------------------------
# single-thread line counter with abort injection (C05, C17)


class LineTracer:
    """Counts pre-emptible line events of the calling thread; raises SimAbort at event abort_at."""

    def __init__(self, abort_at: Optional[int] = None, trace_lark: bool = False,
                 no_abort_in: Tuple[str, ...] = (),
                 abort_only_under: Tuple[str, ...] = ()) -> None:
        self.ff = FrameFilter(trace_lark)
        self.abort_at = abort_at
        # functions in which no abort is injected (the abort is delayed to the next line outside)
        self.no_abort_in = no_abort_in
        # if given: an abort is only injected while some frame on the stack runs code from a file
        # whose name ends with one of these (i.e. inside that code's dynamic extent)
        self.abort_only_under = abort_only_under
        self.steps = 0
        self.fired_site: Optional[str] = None
        self._ident = 0

    def _on_line(self, code: Any, line: int) -> Any:
        tag = self.ff.tag(code.co_filename)
        if tag is None or (tag == "S" and code.co_qualname.startswith("__create_fn__")):
            return _MON.DISABLE
        if threading.get_ident() != self._ident:
            return None
        self.steps += 1
        if self.abort_at is not None and self.steps >= self.abort_at:
            if code.co_qualname in self.no_abort_in:
                return None
            if self.abort_only_under:
                f = sys._getframe(1)
                inside = False
                while f is not None and not inside:
                    fn = f.f_code.co_filename
                    for want in self.abort_only_under:
                        suffix, _, func = want.partition("::")
                        if fn.endswith(suffix) and (not func or f.f_code.co_name == func):
                            inside = True
                            break
                    f = f.f_back
                if not inside:
                    return None
            self.abort_at = None
            self.fired_site = site_of(code, line, tag)
            raise SimAbort(self.fired_site)
        return None

    def __enter__(self) -> "LineTracer":
        _claim_tool()
        self._ident = threading.get_ident()
        _MON.register_callback(TOOL_ID, _MON.events.LINE, self._on_line)
        _MON.set_events(TOOL_ID, _MON.events.LINE)
        # locations for which an earlier run's callback returned DISABLE stay disabled across
        # set_events(0)/set_events(LINE): what this run sees must not depend on what ran before
        _MON.restart_events()
        return self

    def __exit__(self, *exc: Any) -> None:
        _MON.set_events(TOOL_ID, 0)
        _MON.register_callback(TOOL_ID, _MON.events.LINE, None)


# --------------------------------------------------------------------------------------------
# cooperative locks: what celpy code gets when it asks `threading` for a Lock / RLock while the
# simulator re-executes its modules (kit.fresh_celpy).  Outside a scheduled run, and for threads
# the scheduler does not own, they behave exactly like the real thing.

CURRENT: List[Any] = [None]  # the Scheduler whose run() is in progress
_real_lock = threading.Lock


class SimLock:
    def __init__(self) -> None:
        self._real = _real_lock()

    def acquire(self, blocking: bool = True, timeout: float = -1) -> bool:
        sched = CURRENT[0]
        ws = sched.current_worker() if sched is not None else None
        if ws is None:
            return self._real.acquire(blocking, timeout)
        while True:
            if self._real.acquire(False):
                return True
            if not blocking:
                return False
            sched.block_on(ws, self)

    def release(self) -> None:
        self._real.release()
        sched = CURRENT[0]
        if sched is not None:
            sched.lock_released(self)

    def locked(self) -> bool:
        return self._real.locked()

    __enter__ = acquire

    def __exit__(self, *exc: Any) -> None:
        self.release()


class SimRLock:
    def __init__(self) -> None:
        self._lock = SimLock()
        self._owner: Optional[int] = None
        self._count = 0

    def acquire(self, blocking: bool = True, timeout: float = -1) -> bool:
        me = threading.get_ident()
        if self._owner == me:
            self._count += 1
            return True
        ok = self._lock.acquire(blocking, timeout)
        if ok:
            self._owner = me
            self._count = 1
        return ok

    def release(self) -> None:
        if self._owner != threading.get_ident():
            raise RuntimeError("cannot release un-acquired lock")
        self._count -= 1
        if self._count == 0:
            self._owner = None
            self._lock.release()

    __enter__ = acquire

    def __exit__(self, *exc: Any) -> None:
        self.release()


class ThreadingProxy:
    """Stands in for the `threading` module while celpy's module code is executed."""

    Lock = SimLock
    RLock = SimRLock

    def __getattr__(self, name: str) -> Any:
        return getattr(threading, name)


# --------------------------------------------------------------------------------------------
# policies


class Policy:
    name = "base"

    def first(self, sched: "Scheduler", runnable: List[int]) -> int:
        return min(runnable)

    def choose(self, sched: "Scheduler", ws: "Worker", site: str, hot: bool) -> Optional[int]:
        return None

    def on_exit(self, sched: "Scheduler", ws: "Worker", runnable: List[int]) -> int:
        return min(runnable)


class RandomPolicy(Policy):
    """Switch with probability p at every yield point (p * hot_mult at hot sites)."""

    def __init__(self, seed: int, p: float, hot_mult: float = 1.0) -> None:
        self.r = random.Random(seed)
        self.p = p
        self.hot_mult = hot_mult
        self.name = "hot" if hot_mult != 1.0 else "random"

    def first(self, sched: "Scheduler", runnable: List[int]) -> int:
        return self.r.choice(sorted(runnable))

    def choose(self, sched: "Scheduler", ws: "Worker", site: str, hot: bool) -> Optional[int]:
        p = self.p * (self.hot_mult if hot else 1.0)
        if self.r.random() < p:
            others = [t for t in sched.runnable() if t != ws.tid]
            if others:
                return self.r.choice(others)
        return None

    def on_exit(self, sched: "Scheduler", ws: "Worker", runnable: List[int]) -> int:
        return self.r.choice(sorted(runnable))


class FocusPolicy(Policy):
    """Targeted pre-emption: one function of the library (chosen by the seed among those that touch
    process-wide state) is the focus of the run; inside it the baton changes hands with probability
    p_in at every line, elsewhere with the small probability p_out.  Threads therefore tend to meet
    *inside* the focus function, which a uniform policy only does by luck."""

    name = "focus"

    def __init__(self, seed: int, focus: str, p_in: float, p_out: float) -> None:
        self.r = random.Random(seed)
        self.focus = focus
        self.p_in = p_in
        self.p_out = p_out

    def first(self, sched: "Scheduler", runnable: List[int]) -> int:
        return self.r.choice(sorted(runnable))

    def choose(self, sched: "Scheduler", ws: "Worker", site: str, hot: bool) -> Optional[int]:
        p = self.p_in if site == self.focus else self.p_out
        if self.r.random() < p:
            others = [t for t in sched.runnable() if t != ws.tid]
            if others:
                return self.r.choice(others)
        return None

    def on_exit(self, sched: "Scheduler", ws: "Worker", runnable: List[int]) -> int:
        return self.r.choice(sorted(runnable))


class PointPolicy(Policy):
    """One targeted pre-emption: the victim thread is stopped at its k-th line inside the focus
    function (counted over all its calls), every other thread then runs (to completion, in a
    seeded order), and the victim resumes.  Systematic in k: the line at which a thread is caught
    half-way through updating shared state is hit by construction, not by luck."""

    name = "point"

    def __init__(self, seed: int, focus: str, victim: int, k: int) -> None:
        self.r = random.Random(seed)
        self.focus = focus
        self.victim = victim
        self.k = max(1, k)
        self.count = 0
        self.fired = False

    def first(self, sched: "Scheduler", runnable: List[int]) -> int:
        return self.victim if self.victim in runnable else min(runnable)

    def choose(self, sched: "Scheduler", ws: "Worker", site: str, hot: bool) -> Optional[int]:
        if self.fired or ws.tid != self.victim or site != self.focus:
            return None
        self.count += 1
        if self.count == self.k:
            self.fired = True
            others = [t for t in sched.runnable() if t != ws.tid]
            if others:
                return self.r.choice(sorted(others))
        return None

    def on_exit(self, sched: "Scheduler", ws: "Worker", runnable: List[int]) -> int:
        # the victim resumes only after all the others are done
        rest = [t for t in runnable if t != self.victim] if self.fired else runnable
        return self.r.choice(sorted(rest or runnable))


FOCUS_CHOICES = sorted(HOT_QUALNAMES | {"<module>", "<lambda>", "Phase2Transpiler.__init__",
                                        "Phase2Transpiler.expr", "Phase2Transpiler.statements",
                                        "Phase1Transpiler.__init__", "function_matches",
                                        "Activation.resolve_function", "Runner.new_activation",
                                        "macro_map", "function_call", "NameContainer.resolve_name"})


class PCTPolicy(Policy):
    """Probabilistic concurrency testing (Burckhardt et al.): random priorities, d-1 change points
    uniformly over the estimated length k; always runs the highest-priority runnable thread."""

    name = "pct"

    def __init__(self, seed: int, tids: List[int], depth: int, k: int) -> None:
        r = random.Random(seed)
        prios = list(range(depth, depth + len(tids)))
        r.shuffle(prios)
        self.prio = {t: p for t, p in zip(sorted(tids), prios)}
        k = max(k, depth)
        pts = sorted(r.randrange(1, k + 1) for _ in range(depth - 1))
        # change point i gives priority depth-1-i ... all below the initial ones, distinct
        self.change = {}
        for i, s in enumerate(pts):
            self.change.setdefault(s, depth - 1 - i)

    def _best(self, runnable: List[int]) -> int:
        return max(runnable, key=lambda t: (self.prio[t], -t))

    def first(self, sched: "Scheduler", runnable: List[int]) -> int:
        return self._best(runnable)

    def choose(self, sched: "Scheduler", ws: "Worker", site: str, hot: bool) -> Optional[int]:
        newp = self.change.get(sched.step)
        if newp is not None:
            self.prio[ws.tid] = newp
            best = self._best(sched.runnable())
            if best != ws.tid:
                return best
        return None

    def on_exit(self, sched: "Scheduler", ws: "Worker", runnable: List[int]) -> int:
        return self._best(runnable)


class RoundRobinPolicy(Policy):
    """Switch to the next runnable thread every q yield points (offset by a seeded phase)."""

    name = "roundrobin"

    def __init__(self, seed: int, q: int) -> None:
        self.q = max(1, q)
        self.phase = random.Random(seed).randrange(self.q)

    def choose(self, sched: "Scheduler", ws: "Worker", site: str, hot: bool) -> Optional[int]:
        if (sched.step + self.phase) % self.q == 0:
            rs = sorted(sched.runnable())
            later = [t for t in rs if t > ws.tid]
            nxt = (later or rs)[0]
            if nxt != ws.tid:
                return nxt
        return None


class ExplicitPolicy(Policy):
    """Replay: a list of [tid, that thread's local step or -1 for exit or -2 for start, next tid]."""

    name = "explicit"

    def __init__(self, switches: List[List[int]]) -> None:
        self.at: Dict[Tuple[int, int], int] = {}
        self.start: Optional[int] = None
        self.blocks: Dict[int, List[int]] = {}
        for tid, local, nxt, *_ in switches:
            if local == -2:
                self.start = nxt
            elif local == -3:
                self.blocks.setdefault(tid, []).append(nxt)
            else:
                self.at.setdefault((tid, local), nxt)

    def first(self, sched: "Scheduler", runnable: List[int]) -> int:
        if self.start is not None and self.start in runnable:
            return self.start
        return min(runnable)

    def choose(self, sched: "Scheduler", ws: "Worker", site: str, hot: bool) -> Optional[int]:
        nxt = self.at.get((ws.tid, ws.local_step))
        if nxt is not None and nxt != ws.tid and nxt in sched.runnable():
            return nxt
        return None

    def on_exit(self, sched: "Scheduler", ws: "Worker", runnable: List[int]) -> int:
        if ws.blocked_on is not None:
            q = self.blocks.get(ws.tid)
            nxt = q.pop(0) if q else None
        else:
            nxt = self.at.get((ws.tid, -1))
        if nxt is not None and nxt in runnable:
            return nxt
        return min(runnable)


def make_policy(spec: Dict[str, Any], tids: List[int], k_estimate: int) -> Policy:
    kind = spec["kind"]
    if kind == "explicit":
        return ExplicitPolicy(spec["switches"])
    if kind == "pct":
        return PCTPolicy(spec["seed"], tids, spec["depth"], k_estimate)
    if kind == "random":
        return RandomPolicy(spec["seed"], spec["p"])
    if kind == "hot":
        return RandomPolicy(spec["seed"], spec["p"], spec.get("mult", 50.0))
    if kind == "roundrobin":
        return RoundRobinPolicy(spec["seed"], spec["q"])
    if kind == "focus":
        return FocusPolicy(spec["seed"], spec["focus"], spec["p_in"], spec["p_out"])
    if kind == "point":
        return PointPolicy(spec["seed"], spec["focus"], spec["victim"], spec["k"])
    if kind == "serial":
        return Policy()
    raise ValueError(kind)


# --------------------------------------------------------------------------------------------
# scheduler


_HOTNESS: List[Any] = [None]


def get_hotness() -> Any:
    kit.load_celpy()  # computes kit.HOTNESS from the pristine module state, once per process
    return kit.HOTNESS


class _Carrier:
    """A real OS thread that carries one simulated worker for one run."""

    _free: List["_Carrier"] = []

    def __init__(self) -> None:
        self.job: Optional[Callable[[], None]] = None
        self.go = threading.Semaphore(0)
        self.finished = threading.Event()
        self.thread = threading.Thread(target=self._loop, name="sim-carrier", daemon=True)
        self.thread.start()

    def _loop(self) -> None:
        while True:
            self.go.acquire()
            job, self.job = self.job, None
            if job is None:
                return
            try:
                job()
            finally:
                self.finished.set()

    def submit(self, job: Callable[[], None]) -> None:
        self.finished.clear()
        self.job = job
        self.go.release()

    @classmethod
    def get(cls) -> "_Carrier":
        return cls()

    @classmethod
    def put(cls, c: "_Carrier") -> None:
        # Carriers are NOT reused: a thread that once ran into the interpreter's (C) recursion limit
        # does not always get its remaining budget back (CPython 3.12.1), so a reused thread made
        # the next run's outcome at the edge of that limit depend on the previous run.  (Reuse did
        # not buy throughput either.)  The carrier's loop ends with its single job.
        c.job = None
        c.go.release()


class Worker:
    def __init__(self, tid: int, fn: Callable[[], None]) -> None:
        self.tid = tid
        self.fn = fn
        self.sem = threading.Semaphore(0)
        self.local_step = 0
        self.started = False
        self.done = False
        self.last_site = "start"
        self.thread: Optional[threading.Thread] = None
        self.error: Optional[str] = None
        self.abort_at: Optional[int] = None  # local step at which SimAbort is raised (once)
        self.aborted_site: Optional[str] = None
        self.blocked_on: Any = None  # a SimLock this worker waits for
        self.blocks = 0
        # qualname -> [lines executed, hotness score] for functions touching lasting state
        self.hot_profile: Dict[str, List[int]] = {}
        self.in_parse = False


class Scheduler:
    def __init__(self, policy_spec: Dict[str, Any], k_estimate: int = 10000,
                 trace_lark: bool = False, step_cap: int = 5_000_000) -> None:
        self.policy_spec = policy_spec
        self.k_estimate = k_estimate
        self.ff = FrameFilter(trace_lark)
        self.workers: Dict[int, Worker] = {}
        self.step = 0
        self.step_cap = step_cap
        self.livelock = False
        self.switches: List[List[Any]] = []  # [tid, local_step, next_tid, site_left, site_resumed]
        self.preemptions = 0
        self.policy: Policy = Policy()
        self._done = threading.Event()
        self.current: Optional[int] = None
        self.hot_switches = 0
        self.lock_blocks = 0
        self.deadlock = False
        self.hotness = get_hotness()
        self._by_ident: Dict[int, Worker] = {}

    def add(self, tid: int, fn: Callable[[], None], abort_at: Optional[int] = None) -> None:
        w = Worker(tid, fn)
        w.abort_at = abort_at
        self.workers[tid] = w

    def runnable(self) -> List[int]:
        return [t for t, w in self.workers.items() if not w.done and w.blocked_on is None]

    # -- cooperative locks --------------------------------------------------------------------
    def current_worker(self) -> Optional[Worker]:
        ws = self._by_ident.get(threading.get_ident())
        if ws is None or ws.done or not ws.started:
            return None
        return ws

    def block_on(self, ws: Worker, lock: Any) -> None:
        """ws cannot take `lock` (its holder is parked): hand the baton on until it is released."""
        ws.blocked_on = lock
        ws.blocks += 1
        rs = sorted(self.runnable())
        if not rs:
            # every live thread waits for a lock: a genuine deadlock of the system under test
            self.deadlock = True
            self.livelock = True
            ws.blocked_on = None
            for w in self.workers.values():
                if not w.done and w is not ws:
                    w.blocked_on = None
            raise SimLivelock()
        nxt = self.policy.on_exit(self, ws, rs)
        other = self.workers[nxt]
        self.switches.append([ws.tid, -3, nxt, "blocked-on-lock", other.last_site])
        self.lock_blocks += 1
        self.current = nxt
        other.sem.release()
        ws.sem.acquire()
        if self.livelock:
            raise SimLivelock()

    def lock_released(self, lock: Any) -> None:
        for w in self.workers.values():
            if w.blocked_on is lock:
                w.blocked_on = None

    # -- tracing ------------------------------------------------------------------------------
    def _on_line(self, code: Any, line: int) -> Any:
        tag = self.ff.tag(code.co_filename)
        if tag is None or (tag == "S" and code.co_qualname.startswith("__create_fn__")):
            return _MON.DISABLE  # not celpy: e.g. dataclass-generated "<string>" functions of lark
        ws = self._by_ident.get(threading.get_ident())
        if ws is None or ws.done or not ws.started:
            return None
        # the callback's own frames must not be what exhausts the stack of the code under test
        limit = sys.getrecursionlimit()
        sys.setrecursionlimit(limit + 400)
        try:
            other = self._on_line_body(ws, code, line, tag)
        finally:
            # restored *before* the baton is handed on: the limit is process-wide, and no other
            # thread may run (nor this one park) while it is raised
            sys.setrecursionlimit(limit)
        if other is not None:
            other.sem.release()
            ws.sem.acquire()
        return None

    def _on_line_body(self, ws: Worker, code: Any, line: int, tag: str) -> Any:
        if tag == "L":
            # lark is pre-emptible only while it parses on behalf of CELParser.parse (the shared
            # parser object used concurrently).  Building a parser is excluded: lark iterates over
            # sets of objects hashed by address there, so its line count is not reproducible.
            if not ws.in_parse:
                return None
        else:
            ws.in_parse = code.co_qualname == "CELParser.parse"
        return self._yield(ws, code, line, tag)

    def _yield(self, ws: Worker, code: Any, line: int, tag: str) -> Any:
        """Returns the worker to hand the baton to (the caller does the hand-over), or None."""
        ws.local_step += 1
        self.step += 1
        if self.step > self.step_cap:
            self.livelock = True
        if self.livelock:
            raise SimLivelock()
        if ws.abort_at is not None and ws.local_step == ws.abort_at:
            ws.aborted_site = site_of(code, line, tag)
            ws.abort_at = None
            raise SimAbort(ws.aborted_site)
        score = self.hotness.score(code)
        hot = score > 0 or tag == "S" or code.co_qualname in HOT_QUALNAMES
        if hot:
            q = code.co_qualname
            ent = ws.hot_profile.get(q)
            if ent is None:
                ws.hot_profile[q] = [1, score or 1]
            else:
                ent[0] += 1
        nxt = self.policy.choose(self, ws, code.co_qualname, hot)
        if nxt is not None and nxt != ws.tid:
            site = site_of(code, line, tag)
            ws.last_site = site
            other = self.workers[nxt]
            self.switches.append([ws.tid, ws.local_step, nxt, site, other.last_site])
            self.preemptions += 1
            if hot:
                self.hot_switches += 1
            self.current = nxt
            return other
        return None

    # -- thread bodies ------------------------------------------------------------------------
    def _body(self, ws: Worker) -> None:
        self._by_ident[threading.get_ident()] = ws
        ws.sem.acquire()
        ws.started = True
        try:
            ws.fn()
        except SimLivelock:
            ws.error = "livelock"
        except BaseException as ex:  # the worker function is harness code: it must not leak
            ws.error = f"{type(ex).__name__}: {ex}"
        finally:
            ws.done = True
            ws.last_site = "exit"
            rs = self.runnable()
            if not rs and any(not w.done for w in self.workers.values()):
                # the remaining threads all wait for locks nobody will release
                self.deadlock = True
                self.livelock = True
                for w in self.workers.values():
                    w.blocked_on = None
                rs = self.runnable()
            if rs:
                nxt = self.policy.on_exit(self, ws, sorted(rs))
                other = self.workers[nxt]
                self.switches.append([ws.tid, -1, nxt, "exit", other.last_site])
                self.current = nxt
                other.sem.release()
            else:
                self._done.set()

    def run(self, timeout: float = 120.0) -> None:
        tids = sorted(self.workers)
        self.policy = make_policy(self.policy_spec, tids, self.k_estimate)
        _claim_tool()
        _MON.register_callback(TOOL_ID, _MON.events.LINE, self._on_line)
        _MON.set_events(TOOL_ID, _MON.events.LINE)
        # see LineTracer.__enter__: DISABLE decisions of earlier runs (which may have had another
        # frame filter, e.g. no trace_lark) must not carry over
        _MON.restart_events()
        CURRENT[0] = self
        try:
            self._run(tids, timeout)
        finally:
            CURRENT[0] = None
            _MON.set_events(TOOL_ID, 0)
            _MON.register_callback(TOOL_ID, _MON.events.LINE, None)

    def _run(self, tids: List[int], timeout: float) -> None:
        carriers = []
        for t in tids:
            w = self.workers[t]
            c = _Carrier.get()
            carriers.append(c)
            c.submit(lambda w=w: self._body(w))
        first = self.policy.first(self, tids)
        self.switches.append([-1, -2, first, "start", "start"])
        self.current = first
        self.workers[first].sem.release()
        # wall-clock never decides a run: the step cap bounds it.  The clock is only consulted to
        # tell a run that is stuck outside the scheduler's reach (no step for `timeout` seconds)
        # from one that is merely slow on a loaded machine (a 46 000-step run with 14 000 switches
        # once took > 120 s under 16-fold load and was wrongly given up as a harness error).
        last_step, idle = -1, 0.0
        while not self._done.wait(5.0):
            if self.step != last_step:
                last_step, idle = self.step, 0.0
                continue
            idle += 5.0
            if idle >= timeout:
                # (the carriers of this run stay out of the pool: they may never come back)
                raise kit.HarnessError(
                    f"scheduler: no step for {timeout}s "
                    f"(current={self.current}, step={self.step})"
                )
        for c in carriers:
            if c.finished.wait(5.0):
                _Carrier.put(c)

    # -- recorded schedule --------------------------------------------------------------------
    def explicit_switches(self) -> List[List[int]]:
        return [[a, b, c] for a, b, c, *_ in self.switches]

    def site_sequence(self) -> List[str]:
        return [f"{s[3]}>{s[4]}" for s in self.switches if s[1] >= 0]
