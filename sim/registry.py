"""Which module decides which property, and the per-tier budgets (upper bound on runs; the wall cap
in driver.TIERS stops submission earlier on a slow machine)."""

CHECKS = {
    "C05": {"module": "sim.c05", "quick": {"runs": 3200, "chunk": 8, "wall": 50.0},
            "thorough": {"runs": 60000, "chunk": 16}},
    "C14": {"module": "sim.c14", "quick": {"runs": 10000, "chunk": 32},
            "thorough": {"runs": 400000, "chunk": 64}},
    "C17": {"module": "sim.c17", "quick": {"runs": 10000, "chunk": 32},
            "thorough": {"runs": 400000, "chunk": 64}},
    "C20": {"module": "sim.c20", "post": True, "quick": {"runs": 8000, "chunk": 16},
            "thorough": {"runs": 200000, "chunk": 32}},
    "C16": {"module": "sim.c16", "quick": {"runs": 4800, "chunk": 12, "wall": 70.0},
            "thorough": {"runs": 120000, "chunk": 12}},
}
