"""Batch driver shared by all property checks: seeds -> worker pool -> oracles -> confirm ->
minimise -> replay file -> known findings -> evidence -> exit code.

Exit codes: 0 = property held on everything explored (known findings printed);
            1 = VIOLATION line(s) printed; 2 = harness error (timeout, nondeterminism, crash).
"""

from __future__ import annotations

import importlib
import json
import os
import sys
import time
from concurrent.futures import FIRST_COMPLETED, ProcessPoolExecutor, wait
from multiprocessing import get_context
from typing import Any, Dict, List, Optional, Tuple

from . import kit

TIERS = {
    # runs: upper bound on simulated runs; wall: stop submitting new work after this many seconds
    "quick": {"wall": 40.0},
    "thorough": {"wall": 1500.0},
}


RUN_TIMEOUT = 1800.0  # a stuck run takes its worker down (harness error); slow runs are not stuck
SHRINK_WALL = 45.0  # seconds of minimisation per reported violation
SHRINK_TOTAL = 150.0  # ... and per check


def _recursion_edge(v: Dict[str, Any]) -> bool:
    return "RecursionError" in json.dumps(v.get("sig", {}), default=str)


def _worker_init(counter: Any = None) -> None:
    # one CPU per worker: the threads of a run pass a baton (only one ever runs), and keeping them
    # on one CPU makes their wake-ups and the interpreter's frequent mmap/munmap of frame-stack
    # chunks local (no cross-CPU TLB shootdowns) -- about 20 % more runs per hour in this VM
    if counter is not None and os.environ.get("VERIF_NO_PIN") != "1":
        try:
            with counter.get_lock():
                ix = counter.value
                counter.value += 1
            cpus = sorted(os.sched_getaffinity(0))
            os.sched_setaffinity(0, {cpus[ix % len(cpus)]})
        except (AttributeError, OSError, ValueError):
            pass
    kit.load_celpy()


def _worker_chunk(modname: str, seeds: List[int], tier: str) -> Dict[str, Any]:
    import faulthandler

    mod = importlib.import_module(modname)
    out: List[Dict[str, Any]] = []
    for seed in seeds:
        t0 = time.monotonic()
        # runs execute in this long-lived worker (reload isolation); a run that hangs takes the
        # worker down, which the parent reports as a harness error (exit 2), never as exit 0
        faulthandler.dump_traceback_later(RUN_TIMEOUT, exit=True)
        try:
            trace = mod.generate(seed, tier)
            res = mod.execute(trace)
            item = {
                "seed": seed,
                "digest": res["digest"],
                "nontrivial": res["nontrivial"],
                "stats": res["stats"],
                "states": res.get("states", []),
                "transitions": res.get("transitions", []),
                "extra": res.get("extra", {}),
            }
            if res["violations"]:
                item["violations"] = res["violations"]
                item["trace"] = trace
            if res.get("sample"):
                item["sample"] = res["sample"]
        except kit.HarnessError as ex:
            item = {"seed": seed, "harness_error": str(ex)}
        finally:
            faulthandler.cancel_dump_traceback_later()
        item["wall"] = time.monotonic() - t0
        out.append(item)
    return {"items": out, "refs": getattr(mod, "REF_RUNS", 0)}


def _sample_of(mod: Any, seed: int, tier: str) -> Any:
    try:
        tr = mod.generate(seed, tier)
        return mod.sample_view(tr) if hasattr(mod, "sample_view") else tr
    except Exception as ex:  # noqa: BLE001
        return {"seed": seed, "error": repr(ex)}


def run_check(modname: str, tier: str, max_runs: int, chunk: int = 8,
              wall: Optional[float] = None) -> int:
    mod = importlib.import_module(modname)
    prop = mod.PROP
    bseed = kit.batch_seed()
    wall_cap = wall if wall is not None else TIERS[tier]["wall"]
    env_wall = os.environ.get("VERIF_WALL")
    if env_wall:
        wall_cap = float(env_wall)
    env_runs = os.environ.get("VERIF_RUNS")
    if env_runs:
        max_runs = int(env_runs)
    t0 = time.monotonic()
    print(f"[{prop}] tier={tier} VERIF_SEED={bseed} src={kit.SRC} workers={kit.CPUS} "
          f"max_runs={max_runs} wall_cap={wall_cap}s", flush=True)

    if hasattr(mod, "make_seeds"):
        seeds = mod.make_seeds(bseed, max_runs)
    else:
        seeds = [kit.H(bseed, prop, i) for i in range(max_runs)]
    chunks = [seeds[i : i + chunk] for i in range(0, len(seeds), chunk)]
    agg_stats: Dict[str, int] = {}
    digests_nontrivial = set()
    digests_all = set()
    states = set()
    transitions = set()
    extra_sets: Dict[str, set] = {}
    runs = 0
    harness_errors: List[str] = []
    violating: List[Dict[str, Any]] = []
    sample_items: List[Any] = []
    refs_total = 0
    seeds_run: List[int] = []
    digest_by_seed: Dict[int, str] = {}
    stopped_early = False

    if hasattr(mod, "prepare"):
        mod.prepare()
    ctx = get_context("fork")
    with ProcessPoolExecutor(max_workers=kit.CPUS, mp_context=ctx,
                             initializer=_worker_init, initargs=(ctx.Value("i", 0),)) as pool:
        pending = set()
        it = iter(chunks)
        exhausted = False

        def submit_more() -> None:
            nonlocal exhausted, stopped_early
            while not exhausted and len(pending) < 2 * kit.CPUS:
                if time.monotonic() - t0 > wall_cap:
                    stopped_early = True
                    exhausted = True
                    return
                try:
                    c = next(it)
                except StopIteration:
                    exhausted = True
                    return
                pending.add(pool.submit(_worker_chunk, modname, c, tier))

        submit_more()
        while pending:
            done, pending_now = wait(pending, return_when=FIRST_COMPLETED, timeout=600)
            if not done:
                harness_errors.append("pool made no progress for 600s")
                break
            pending -= done
            for fut in done:
                try:
                    res = fut.result()
                except Exception as ex:  # noqa: BLE001
                    harness_errors.append(f"worker failed: {ex!r}")
                    continue
                refs_total = max(refs_total, 0) + 0
                for item in res["items"]:
                    if "harness_error" in item:
                        harness_errors.append(f"seed {item['seed']}: {item['harness_error']}")
                        continue
                    runs += 1
                    seeds_run.append(item["seed"])
                    kit.merge_counts(agg_stats, item["stats"])
                    digests_all.add(item["digest"])
                    if len(digest_by_seed) < 64 and "violations" not in item:
                        digest_by_seed[item["seed"]] = item["digest"]
                    if item["nontrivial"]:
                        digests_nontrivial.add(item["digest"])
                    states.update(item["states"])
                    transitions.update(item["transitions"])
                    for k, vals in item.get("extra", {}).items():
                        extra_sets.setdefault(k, set()).update(vals)
                    if "violations" in item:
                        violating.append(item)
                    if "sample" in item and len(sample_items) < 3:
                        sample_items.append(item["sample"])
            submit_more()

    sim_wall = time.monotonic() - t0
    # ---------------------------------------------------------------- violations
    kit.load_celpy()
    n_viol = 0
    known_lines: List[str] = []
    known_hits: Dict[str, int] = {}
    viol_lines: List[str] = []
    minimised_per_class: Dict[str, int] = {}
    shrink_spent = [0.0]
    replays_confirmed = [0]
    all_sigs: Dict[str, int] = {}
    findings = [f for f in kit.load_known_findings() if f.get("property") == prop]

    def attribute(trace: Dict[str, Any], v: Dict[str, Any]) -> Optional[str]:
        """id of the listed finding this violation is an instance of, or None.  Decided by the
        module (a counterfactual re-execution), never by the violation class alone."""
        if not findings or not hasattr(mod, "attribute_known"):
            return None
        return mod.attribute_known(trace, v, findings)

    for item in sorted(violating, key=lambda x: x["seed"]):
        trace = item["trace"]
        for v in item["violations"]:
            sig_key = json.dumps(v["sig"], sort_keys=True)
            all_sigs[sig_key] = all_sigs.get(sig_key, 0) + 1
            try:
                fid = attribute(trace, v)
            except kit.HarnessError as ex:
                harness_errors.append(f"attributing seed {item['seed']}: {ex}")
                continue
            if fid is not None:
                known_hits[fid] = known_hits.get(fid, 0) + 1
                continue
            n_viol += 1
            if minimised_per_class.get(sig_key, 0) >= 2:
                continue  # this class was already confirmed, minimised and reported twice
            minimised_per_class[sig_key] = minimised_per_class.get(sig_key, 0) + 1
            # confirm: replay from the trace
            try:
                again = mod.execute(trace)
            except kit.HarnessError as ex:
                harness_errors.append(f"replay of seed {item['seed']}: {ex}")
                continue
            if not any(x["sig"] == v["sig"] for x in again["violations"]):
                if _recursion_edge(v):
                    # one side of the mismatch is the interpreter running out of stack: where
                    # exactly that happens is not the simulator's to decide (DESIGN section 7);
                    # an incident of this kind that does not reproduce is counted, not reported
                    n_viol -= 1
                    agg_stats["recursion_edge_incident_not_reproduced"] = \
                        agg_stats.get("recursion_edge_incident_not_reproduced", 0) + 1
                    continue
                harness_errors.append(
                    f"HARNESS-NONDETERMINISM seed {item['seed']}: violation {v['sig']} did not "
                    f"reappear when its trace was re-executed")
                continue
            try:
                t_s = time.monotonic()
                if shrink_spent[0] < SHRINK_TOTAL:
                    kit.set_deadline(min(SHRINK_WALL, SHRINK_TOTAL - shrink_spent[0]))
                    small = mod.shrink(trace, v["sig"])
                    kit.set_deadline(None)
                else:
                    small = trace  # minimisation budget of this check is used up: report as found
                shrink_spent[0] += time.monotonic() - t_s
                final = mod.execute(small)
                fv = [x for x in final["violations"] if x["sig"] == v["sig"]]
                if not fv:
                    small, final, fv = trace, again, [x for x in again["violations"]
                                                      if x["sig"] == v["sig"]]
            except kit.HarnessError as ex:
                kit.set_deadline(None)
                harness_errors.append(f"minimising seed {item['seed']}: {ex}")
                small, final = trace, again
                fv = [x for x in again["violations"] if x["sig"] == v["sig"]]
            failure = dict(fv[0])
            failure["log"] = final.get("log")
            path = kit.write_replay(prop, item["seed"], small, failure)
            # the replay file must reproduce the violation in a fresh process; if the minimised
            # trace does not, the trace as found is written instead and must
            try:
                import subprocess

                def fresh_replay(p: str) -> Any:
                    return subprocess.run(
                        [sys.executable, "-B", os.path.join(kit.VERIF, "sim", "main.py"), prop,
                         "--replay", p], capture_output=True, text=True, timeout=600,
                        env=dict(os.environ, VERIF_SRC=kit.SRC))

                rp = fresh_replay(path)
                if rp.returncode != 1 and small is not trace:
                    fo = [x for x in again["violations"] if x["sig"] == v["sig"]]
                    failure = dict(fo[0], log=again.get("log"), minimisation="discarded: the minimised "
                                   "trace did not reproduce in a fresh process")
                    with open(path, "w") as fh:
                        json.dump({"property": prop, "seed": item["seed"], "trace": trace,
                                   "failure": failure}, fh, indent=1, default=kit._json_default)
                    rp = fresh_replay(path)
                if rp.returncode != 1:
                    n_viol -= 1  # not reported as a violation: only what replays is
                    if _recursion_edge(v):
                        agg_stats["recursion_edge_incident_not_reproduced"] = \
                            agg_stats.get("recursion_edge_incident_not_reproduced", 0) + 1
                        try:
                            os.unlink(path)
                        except OSError:
                            pass
                        continue
                    harness_errors.append(
                        f"replay file {path} did not reproduce in a fresh process "
                        f"(exit {rp.returncode}): {rp.stdout[-300:]}")
                    continue
                replays_confirmed[0] += 1
            except Exception as ex:  # noqa: BLE001
                harness_errors.append(f"replaying {path} in a fresh process failed: {ex!r}")
                n_viol -= 1
                continue
            viol_lines.append(f"VIOLATION property={prop} replay={path}")
            print(f"[{prop}] violation detail: {json.dumps(failure['sig'])} "
                  f"seed={item['seed']}", flush=True)
    if not viol_lines:
        # nothing was established (every candidate was attributed to a listed finding, or failed
        # to reproduce and is listed as a harness error / recursion-edge incident instead)
        n_viol = 0
    for k, n in sorted(all_sigs.items(), key=lambda kv: -kv[1])[:12]:
        print(f"[{prop}] violation class x{n} (incl. instances of listed findings): {k}", flush=True)
    # every listed finding is exercised by its own recorded probe trace, so that its
    # KNOWN-FINDING line does not depend on the batch happening to hit it
    for f in findings:
        if "probe" not in f:
            continue
        try:
            pres = mod.execute(f["probe"])
            for v in pres["violations"]:
                fid = attribute(f["probe"], v)
                if fid == f["id"]:
                    known_hits[fid] = known_hits.get(fid, 0) + 1
                elif fid is None:
                    n_viol += 1
                    path = kit.write_replay(prop, 0, f["probe"], dict(v))
                    viol_lines.append(f"VIOLATION property={prop} replay={path}")
        except kit.HarnessError as ex:
            harness_errors.append(f"probe of known finding {f['id']}: {ex}")
    for f in findings:
        if f["id"] in known_hits:
            known_lines.append(f"KNOWN-FINDING: property={prop} {f['what']}")
    for line in known_lines:
        print(line)
    for line in viol_lines:
        print(line)

    wall_s = time.monotonic() - t0
    per_hour = runs / sim_wall * 3600 if sim_wall > 0 else 0
    samples = sample_items or [_sample_of(mod, s, tier) for s in seeds_run[:2]]
    coverage: Dict[str, Any] = {
        "evaluations": runs,
        "distinct_nontrivial": len(digests_nontrivial),
        "rule": mod.RULE,
        "samples": samples,
        "states": len(states),
        "transitions": len(transitions),
        "distinct_run_digests": len(digests_all),
        "seeds": {"batch_seed": bseed, "derivation": "H(VERIF_SEED, property, i) for i in "
                  f"0..{runs - 1}" + (" (stopped at wall cap)" if stopped_early else ""),
                  "first": seeds_run[:3]},
        "runs_per_hour": int(per_hour),
        "seeds_per_hour": int(per_hour),
        "simulated_time": {"unit": "steps (pre-emptible line events / operations); no clock is "
                           "involved in this property", "total_steps": agg_stats.get("steps", 0)},
        "counters": dict(sorted(agg_stats.items())),
        "faults_fired": {k: v for k, v in sorted(agg_stats.items()) if k.startswith("fault_")},
        "probes": {k: v for k, v in sorted(agg_stats.items()) if k.startswith("probe_")},
        "components": getattr(mod, "COMPONENTS", {}),
        "known_findings_matched": dict(sorted(known_hits.items())),
        "replay_files_reproduced_in_fresh_process": replays_confirmed[0],
        "harness_errors": harness_errors[:10],
        "workers": kit.CPUS,
    }
    for k, s in extra_sets.items():
        coverage[f"distinct_{k}"] = len(s)
    # determinism sample: part of every check (see sim/selftest.py)
    n_det = int(os.environ.get("VERIF_DETERMINISM_SAMPLE", "6" if tier == "quick" else "48"))
    sample = dict(list(digest_by_seed.items())[:n_det])
    try:
        from . import selftest

        problems = selftest.verify(modname, tier, sample, per_process=1 if tier == "quick" else 4)
    except kit.HarnessError as ex:
        problems = [str(ex)]
    coverage["determinism_selftest"] = {
        "seeds_reexecuted": len(sample),
        "how": "each re-executed in this process and as the first run of a fresh interpreter under "
               "another PYTHONHASHSEED; digests compared with the batch's",
        "mismatches": len(problems)}
    for pr in problems:
        harness_errors.append("HARNESS-NONDETERMINISM " + pr)
    kit.write_evidence(prop, tier, bseed, coverage, wall_s, n_viol, mod.ASSUMPTIONS)
    print(f"[{prop}] runs={runs} distinct_nontrivial={len(digests_nontrivial)} "
          f"states={len(states)} transitions={len(transitions)} violations={n_viol} "
          f"known={len(known_hits)} harness_errors={len(harness_errors)} "
          f"wall={wall_s:.1f}s ({int(per_hour)} runs/h)", flush=True)
    if harness_errors:
        for h in harness_errors[:5]:
            print(f"[{prop}] HARNESS-ERROR {h}", file=sys.stderr)
        if replays_confirmed[0] and viol_lines:
            # some incident of this run could not be reproduced (reported above), but at least one
            # violation was: its replay file fails again in a fresh process.  That is a violation.
            return 1
        return 2
    if runs == 0:
        print(f"[{prop}] HARNESS-ERROR no run completed", file=sys.stderr)
        return 2
    if n_viol:
        return 1
    return 0


def replay(modname: str, path: str) -> int:
    mod = importlib.import_module(modname)
    kit.load_celpy()
    with open(path) as f:
        doc = json.load(f)
    trace = doc["trace"]
    res = mod.execute(trace)
    print(json.dumps({"trace": mod.sample_view(trace) if hasattr(mod, "sample_view") else trace},
                     indent=1, default=str)[:6000])
    for i, r in enumerate(res.get("log") or []):
        print(f"  step {i}: {json.dumps(r, default=str)[:400]}")
    want = doc.get("failure", {}).get("sig")
    hit = [v for v in res["violations"] if want is None or v["sig"] == want]
    if hit:
        print(f"reproduced: {json.dumps(hit[0], default=str)[:1500]}")
        print(f"VIOLATION property={mod.PROP} replay={path}")
        return 1
    if res["violations"]:
        print(f"a different violation was observed: {json.dumps(res['violations'][0], default=str)[:800]}")
        print(f"VIOLATION property={mod.PROP} replay={path}")
        return 1
    print("not reproduced on this tree (the property holds for this trace)")
    return 0
