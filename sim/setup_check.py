"""MANIFEST.setup_cmd: verify, offline, that the simulator can import the system under test from
the files on disk.  Nothing is built or installed."""
import os
import sys

sys.path.insert(0, os.path.dirname(os.path.dirname(os.path.abspath(__file__))))
from sim import kit  # noqa: E402

kit.load_celpy()
import lark  # noqa: E402
import pendulum  # noqa: E402
import re2  # noqa: E402

celpy = kit.fresh_celpy()
env = celpy.Environment()
assert env.program(env.compile("1 + 2")).evaluate({}) == 3
assert sys.version_info >= (3, 12), "sys.monitoring (PEP 669) is required"
print("setup ok: celpy from", celpy.__file__, "lark", lark.__version__)
