"""Which functions of the library touch state that outlives a call?  Decided statically from the
code objects of the *current* working tree, so that a newly introduced module-level cache or class
attribute becomes a preferred pre-emption site without anybody listing it:

  * the function assigns or deletes a module global (STORE_GLOBAL / DELETE_GLOBAL);
  * it reads a module global that is bound to a mutable container (dict, list, set, ChainMap, ...);
  * it reads or writes an attribute whose name is a class-level data attribute of some celpy class
    that can change (a mutable container, or a None placeholder such as CELParser.CEL_PARSER).

This only biases *where* the scheduler prefers to switch; no site is ever excluded.
"""

from __future__ import annotations

import collections
import dis
import sys
import types
from typing import Any, Dict, Set

_MUTABLE = (dict, list, set, bytearray, collections.deque, collections.ChainMap,
            collections.OrderedDict, collections.defaultdict, collections.Counter)


import logging  # noqa: E402
import re  # noqa: E402

_INERT = (re.Pattern, logging.Logger, logging.LoggerAdapter)


class Hotness:
    def __init__(self) -> None:
        self.module_mutables: Dict[str, Set[str]] = {}   # filename -> names of mutable globals
        self.class_attrs: Set[str] = set()
        self._cache: Dict[Any, int] = {}
        self._scan()

    def _scan(self) -> None:
        for name, mod in list(sys.modules.items()):
            if not (name == "celpy" or name.startswith("celpy.")) or mod is None:
                continue
            fn = getattr(mod, "__file__", None)
            if not fn:
                continue
            muts = set()
            for k, v in vars(mod).items():
                if k.startswith("__"):
                    continue
                if isinstance(v, _MUTABLE):
                    muts.add(k)
                if isinstance(v, type) and getattr(v, "__module__", None) == name:
                    for ak, av in vars(v).items():
                        if ak.startswith("__"):
                            continue
                        # a class-level data attribute that can change: a mutable container, or a
                        # None placeholder that is filled in later (e.g. a lazily built singleton)
                        if av is None or isinstance(av, _MUTABLE):
                            self.class_attrs.add(ak)
                        elif (hasattr(av, "__dict__") and not callable(av)
                              and not isinstance(av, _INERT)
                              and not isinstance(av, (types.FunctionType, staticmethod, classmethod,
                                                      property, type))):
                            # an ordinary object kept on the class (e.g. a shared scratch instance)
                            self.class_attrs.add(ak)
            self.module_mutables[fn] = muts

    def score(self, code: Any) -> int:
        """0 = touches no lasting state; 2 = reads it (mutable module global, changeable class-level
        attribute); 3 = writes it (assigns a module global or such a class-level attribute)."""
        try:
            return self._cache[code]
        except KeyError:
            pass
        sc = 0
        muts = self.module_mutables.get(code.co_filename, set())
        try:
            for ins in dis.get_instructions(code):
                op = ins.opname
                if op in ("STORE_GLOBAL", "DELETE_GLOBAL"):
                    sc = 3
                    break
                if op in ("STORE_ATTR", "DELETE_ATTR") and ins.argval in self.class_attrs:
                    sc = 3
                    break
                if op == "LOAD_GLOBAL" and ins.argval in muts:
                    sc = max(sc, 2)
                if op in ("LOAD_ATTR", "LOAD_METHOD") and ins.argval in self.class_attrs:
                    sc = max(sc, 2)
        except Exception:  # noqa: BLE001
            sc = 0
        self._cache[code] = sc
        return sc

    def is_hot(self, code: Any) -> bool:
        return self.score(code) > 0
