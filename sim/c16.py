"""C16 — concurrent evaluations in separate environments do not interfere.

2-4 real threads, each creating its own Environment, compiling, building and repeatedly evaluating
its own program (the documented threading contract), run under the seeded baton-passing scheduler
(sim/sched.py).  Oracle: every operation outcome in the interleaved run equals the outcome of the
same thread's operation list run alone from the same pristine state.
"""

from __future__ import annotations

import sys
from typing import Any, Dict, List, Optional, Tuple

from . import gen, kit
from .sched import Scheduler, SimAbort

PROP = "C16"
GROUP = 12  # schedules per workload (alone references are shared inside a group)


def prepare() -> None:
    """Called once by the driver before the worker pool is forked (the workers inherit it)."""
    from . import reach

    reach.boosts()


def make_seeds(bseed: int, n: int) -> List[int]:
    return [(kit.H(bseed, PROP, i // GROUP) << 4) | (i % GROUP) for i in range(n)]


# --------------------------------------------------------------------------------------------
# generation


def _gen_thread(rw: Any, tid: int, cfg: Dict[str, Any], shape_seed: Optional[int],
                text_salt: int) -> Dict[str, Any]:
    import random

    runner = cfg["runners"][tid % len(cfg["runners"])]
    if cfg["same_env"]:
        ecfg = dict(cfg["same_env"], runner=runner)
    else:
        ecfg = gen.gen_env(rw, runner)
    decls = gen.decl_map(ecfg["decls"])
    if cfg["jq_mode"]:
        # the CLI's configuration: the package name is bound to a document and the document's
        # fields are *not* declared -- names are found by navigating into the value
        ecfg = dict(ecfg, decls="both", package="p")
        decls = gen.decl_map("pkg")  # what the expressions and bindings are generated over
    ops: List[Dict[str, Any]] = [{"op": "E", "id": 0, "cfg": ecfg}]
    n_prog = rw.choice([1, 1, 1, 2])
    for p in range(n_prog):
        er = random.Random(kit.H(shape_seed, p)) if shape_seed is not None else rw
        host: List[str] = []
        if rw.random() < cfg["host_share"]:
            host = ["hf_add1"]
        if cfg["shadow_size"] and rw.random() < 0.5:
            host = host + ["size"]  # this thread overrides the built-in size(); others use it
        bound = bool(host) and rw.random() < 0.85  # sometimes the name is called but not bound
        text = gen.gen_expr(er, decls, salt=text_salt, depth=er.choice([1, 2, 2, 3, 3, 4]),
                            invalid_share=cfg.get("invalid_share", 0.02),
                            host=[h for h in host if h != "size"],
                            deep_share=cfg["deep_share"],
                            features=cfg["features"] + (["size"] if cfg["shadow_size"] else [])
                            + (["host"] if [h for h in host if h != "size"] else [])
                            + (["pkgname"] if cfg["jq_mode"] else []),
                            bias=cfg.get("bias", 0.7))
        ops.append({"op": "K", "id": p, "env": 0, "text": text, "host": host})
        fspec = None
        if host and bound:
            fspec = {"style": rw.choice(["dict", "list"]), "names": host}
            if cfg["host_variants"]:
                fspec["variant"] = tid + 1  # this thread's own implementation of the same name
        ops.append({"op": "P", "id": p, "ast": p, "env": 0, "functions": fspec})
        for _ in range(rw.choice([1, 1, 2, 3, 4])):
            b = gen.gen_bindings(rw, decls, salt=tid + 1,
                                 missing_share=rw.choice([0.0, 0.1, 0.3]),
                                 package_as_document=cfg["jq_mode"])
            ops.append({"op": "V", "prog": p, "bindings": b})
    return {"tid": tid, "ops": ops}


def generate(seed: int, tier: str = "quick") -> Dict[str, Any]:
    wseed = seed >> 4
    rc = kit.rng(wseed, "config")
    rw = kit.rng(wseed, "workload")
    rs = kit.rng(seed, "schedule")
    rf = kit.rng(seed, "faults")
    n = rc.choice([2, 2, 2, 3, 3, 4])
    mix = rc.choice(["C", "C", "C", "I", "mixed", "mixed", "mixed"])
    if mix == "mixed":
        runners = [rc.choice(["I", "C"]) for _ in range(n)]
        if len(set(runners)) == 1:
            runners[-1] = "I" if runners[0] == "C" else "C"
    else:
        runners = [mix] * n
    cfg: Dict[str, Any] = {
        "n_threads": n,
        "runners": runners,
        "same_shape": rc.random() < 0.5,
        "same_text": rc.random() < 0.3,
        "same_env": gen.gen_env(rc, "C") if rc.random() < 0.6 else None,
        "host_share": rc.choice([0.0, 0.0, 0.3, 0.8]),
        "host_variants": rc.random() < 0.6,
        "shadow_size": rc.random() < 0.15,
        # the CLI's configuration in every thread: a package whose name is bound to a document
        "jq_mode": rc.random() < 0.08,
        "pre": rc.choice([None, None, "I", "C", "same"]),
        "deep_share": rc.choice([0.0, 0.0, 0.0, 0.3, 0.6]),
        # constructs featured in every thread's expressions of this workload (swarm testing)
        "features": rc.sample(sorted(gen.FEATURES), rc.choice([0, 0, 1, 1, 2])),
    }
    # ingredients whose implementation touches lasting state in the tree under test are featured
    # in 40 % of the workloads (sim/reach.py); the draws are made whether or not there are any
    boost_draw, boost_pick = rc.random(), rc.random()
    from . import reach

    boosted = reach.boosts()
    if boosted and boost_draw < 0.4:
        items = sorted(boosted)
        total = sum(boosted[i] for i in items)
        acc, item = 0.0, items[-1]
        for i in items:
            acc += boosted[i] / total
            if boost_pick < acc:
                item = i
                break
        cfg["boosted"] = item
        if item in gen.FEATURES:
            # on its own and insistently, so that most threads of the workload really use it
            cfg["features"] = [item]
            cfg["bias"] = 0.9
            cfg["deep_share"] = 0.0
        elif item == "host":
            cfg["host_share"] = 0.8
        else:
            cfg[item] = True
    if cfg["jq_mode"]:
        cfg["same_env"] = {"runner": "C", "decls": "pkg", "package": "p"}
    shape_seed = kit.H(wseed, "shape") if (cfg["same_shape"] or cfg["same_text"]) else None
    threads = []
    for tid in range(n):
        text_salt = 1 if cfg["same_text"] else tid + 1
        threads.append(_gen_thread(rw, tid, cfg, shape_seed, text_salt))
    if cfg["pre"] == "same":
        cfg["pre"] = runners[0]
    # schedule policy (per run, not per workload)
    # the GROUP schedules of one workload are spread over the policies systematically: three of
    # them focus on the workload's three rarest shared-state functions (see execute())
    slot = seed & 15
    kind = ["pct", "pct", "random", "hot", "hot", "focus", "focus",
            "point", "point", "point", "point", "point"][slot % GROUP]
    if rs.random() < 0.2:
        kind = rs.choice(["pct", "random", "hot", "roundrobin", "focus", "point"])
    pol: Dict[str, Any] = {"kind": kind, "seed": kit.H(seed, "policy")}
    if kind == "pct":
        pol["depth"] = rs.choice([1, 2, 2, 3, 3])
    elif kind == "random":
        pol["p"] = rs.choice([0.0003, 0.001, 0.003, 0.01, 0.03, 0.1, 0.3])
    elif kind == "hot":
        pol["p"] = rs.choice([0.0002, 0.0005, 0.001, 0.003, 0.01])
        pol["mult"] = rs.choice([20.0, 50.0, 100.0])
    elif kind == "focus":
        from .sched import FOCUS_CHOICES

        c = rs.random()
        if c < 0.2:
            pol["focus"] = rs.choice(FOCUS_CHOICES)
        elif c < 0.4:
            pol["focus"] = f"auto:{rs.randrange(1 << 20)}"
        else:
            pol["focus"] = f"rank:{slot % 3}"  # the (slot%3)-th rarest shared hot function
        pol["p_in"] = rs.choice([0.2, 0.5, 0.5, 1.0])
        pol["p_out"] = rs.choice([0.0, 0.0002, 0.001])
    elif kind == "point":
        # one pre-emption of one thread at a seeded line inside the workload's (slot-th ranked)
        # shared-state function; resolved against the alone profiles in execute()
        pol["focus"] = f"rank:{rs.choice([0, 0, 1, 1, 2])}"
        pol["victim"] = rs.randrange(n)
        # the five targeted schedules of a workload are spread evenly over the victim's lines
        # inside the focus function (stratified, then seeded within the stratum)
        j = (slot % GROUP) - 7
        pol["kfrac"] = (j + rs.random()) / 5 if 0 <= j < 5 else rs.random()
    else:
        pol["q"] = rs.choice([1, 2, 3, 5, 10, 37, 200, 1000])
    trace_lark = tier == "thorough" and rs.random() < 0.05
    # fault: abort one evaluation of one thread at an arbitrary line (10 % of runs)
    if rf.random() < 0.10:
        t = rf.choice(threads)
        vs = [i for i, o in enumerate(t["ops"]) if o["op"] in ("V", "P")]
        if vs:
            t["ops"][rf.choice(vs)]["abort"] = int(round(2 ** rf.uniform(0, 10)))
    return {"prop": PROP, "seed": seed, "cfg": cfg, "threads": threads, "policy": pol,
            "trace_lark": trace_lark}


# --------------------------------------------------------------------------------------------
# execution


def _thread_fn(sched: Scheduler, tid: int, ops: List[Dict[str, Any]],
               out: List[Dict[str, Any]]) -> Any:
    from . import hostfuncs

    def fn() -> None:
        celpy = sys.modules["celpy"]
        envs: Dict[int, Any] = {}
        asts: Dict[int, Any] = {}
        progs: Dict[int, Any] = {}
        ws = sched.workers[tid]
        for op in ops:
            kind = op["op"]
            rec: Dict[str, Any] = {"op": kind}
            if kind == "E":
                c = op["cfg"]

                def call(c: Dict[str, Any] = c) -> Any:
                    return celpy.Environment(
                        package=c["package"],
                        annotations=gen.materialise_decls(c["decls"]),
                        runner_class=(celpy.CompiledRunner if c["runner"] == "C"
                                      else celpy.InterpretedRunner))
            elif kind == "K":
                env = envs.get(op["env"])
                if env is None:
                    rec["skipped"] = True
                    out.append(rec)
                    continue

                def call(env: Any = env, text: str = op["text"]) -> Any:
                    return env.compile(text)
            elif kind == "P":
                env = envs.get(op["env"])
                ast = asts.get(op["ast"])
                if env is None or ast is None:
                    rec["skipped"] = True
                    out.append(rec)
                    continue
                functions = hostfuncs.materialise(op["functions"])

                def call(env: Any = env, ast: Any = ast, functions: Any = functions) -> Any:
                    return env.program(ast, functions=functions)
            else:
                prog = progs.get(op["prog"])
                if prog is None:
                    rec["skipped"] = True
                    out.append(rec)
                    continue
                bind = gen.materialise_bindings(op["bindings"])

                def call(prog: Any = prog, bind: Any = bind) -> Any:
                    return prog.evaluate(bind)

            if "abort" in op:
                ws.abort_at = ws.local_step + op["abort"]
            step0 = ws.local_step
            try:
                fp, val = kit.outcome(call, value=(kind == "V"), detail=True)
            except SimAbort:
                rec["aborted"] = ws.aborted_site
                rec["steps"] = ws.local_step - step0
                out.append(rec)
                continue
            finally:
                ws.abort_at = None
            rec["steps"] = ws.local_step - step0
            if kind == "V" or fp[0] != "value":
                rec["fp"] = fp
            else:
                rec["fp"] = ["value"]
            if fp[0] == "value":
                if kind == "E":
                    envs[op["id"]] = val
                elif kind == "K":
                    asts[op["id"]] = val
                elif kind == "P":
                    progs[op["id"]] = val
            out.append(rec)

    return fn


def run_threads(threads: List[Dict[str, Any]], policy: Dict[str, Any], pre: Optional[str],
                trace_lark: bool, k_estimate: int, step_cap: int) -> Dict[str, Any]:
    celpy = kit.fresh_celpy()
    if pre:
        celpy.Environment(runner_class=celpy.CompiledRunner if pre == "C" else celpy.InterpretedRunner)
    sched = Scheduler(policy, k_estimate=k_estimate, trace_lark=trace_lark, step_cap=step_cap)
    outs: Dict[int, List[Dict[str, Any]]] = {}
    for t in threads:
        outs[t["tid"]] = []
        sched.add(t["tid"], _thread_fn(sched, t["tid"], t["ops"], outs[t["tid"]]))
    sched.run()
    errors = {t: w.error for t, w in sched.workers.items() if w.error}
    return {
        "outs": {str(t): o for t, o in outs.items()},
        "switches": sched.switches,
        "steps": sched.step,
        "local_steps": {str(t): w.local_step for t, w in sched.workers.items()},
        "preemptions": sched.preemptions,
        "hot_switches": sched.hot_switches,
        "livelock": sched.livelock,
        "deadlock": sched.deadlock,
        "lock_blocks": sched.lock_blocks,
        "hot_profile": {str(t): w.hot_profile for t, w in sched.workers.items()},
        "errors": {str(t): e for t, e in errors.items()},
    }


_ALONE_CACHE: Dict[str, Dict[str, Any]] = {}
REF_RUNS = 0


def _alone(thread: Dict[str, Any], pre: Optional[str], trace_lark: bool) -> Dict[str, Any]:
    global REF_RUNS
    key = kit.digest([thread["ops"], pre, trace_lark])
    hit = _ALONE_CACHE.get(key)
    if hit is not None:
        return hit
    t = dict(thread, tid=0)
    res = run_threads([t], {"kind": "serial"}, pre, trace_lark, 1000, 50_000_000)
    REF_RUNS += 1
    if len(_ALONE_CACHE) > 20000:
        _ALONE_CACHE.clear()
    out = {"out": res["outs"]["0"], "steps": res["steps"], "errors": res["errors"],
           "hot": res["hot_profile"]["0"]}
    _ALONE_CACHE[key] = out
    return out


def _alone_uncached(thread: Dict[str, Any]) -> Dict[str, Any]:
    """One thread run alone, outside the reference cache (used by sim/reach.py's probes)."""
    res = run_threads([dict(thread, tid=0)], {"kind": "serial"}, None, False, 1000, 50_000_000)
    return {"hot": res["hot_profile"]["0"], "errors": res["errors"]}


def _q(site: str) -> str:
    parts = site.split(":")
    return parts[1] if len(parts) >= 2 else site


def execute(trace: Dict[str, Any]) -> Dict[str, Any]:
    threads = trace["threads"]
    pre = trace["cfg"].get("pre")
    trace_lark = bool(trace.get("trace_lark"))
    alone = {t["tid"]: _alone(t, pre, trace_lark) for t in threads}
    for tid, a in alone.items():
        if a["errors"] and set(a["errors"].values()) == {"livelock"}:
            # the thread's own operation list does not terminate even alone (e.g. it waits for a
            # lock it leaked itself): a liveness failure of the library, not of the harness
            return {"digest": kit.digest(["alone-livelock", tid]), "stats": {"steps": a["steps"]},
                    "nontrivial": False, "states": [], "transitions": [], "extra": {},
                    "switches": [], "log": [{"thread": tid, "alone": a["out"]}],
                    "violations": [{"oracle": "bounded-liveness", "where": "alone", "thread": tid,
                                    "sig": {"oracle": "bounded-liveness", "deadlock": True}}]}
        if a["errors"]:
            raise kit.HarnessError(f"alone run of thread {tid} failed in the harness: {a['errors']}")
    k = sum(a["steps"] for a in alone.values())
    cap = 50 * k + 10000
    policy = trace["policy"]
    if policy.get("kind") in ("focus", "point") and str(policy.get("focus", "")).startswith(("auto:", "rank:")):
        # the focus function is chosen among the functions touching shared state (sim/hotness.py)
        # that at least two of the threads actually execute when run alone
        count: Dict[str, int] = {}
        lines: Dict[str, int] = {}
        score: Dict[str, int] = {}
        for a in alone.values():
            for q, (n_lines, sc) in a["hot"].items():
                count[q] = count.get(q, 0) + 1
                lines[q] = lines.get(q, 0) + n_lines
                score[q] = max(score.get(q, 0), sc)
        cands = sorted(q for q, n in count.items() if n >= 2) or sorted(count) or ["<module>"]
        # rarely executed shared-state code gets the least coverage from the uniform policies:
        # weight a candidate by 1/sqrt(lines it executes), deterministically from the seed
        import random as _random

        mode, _, arg = policy["focus"].partition(":")
        if mode == "rank":
            # writers of lasting state first, then readers, then the static list; rarest first
            # ... and before all of that, the functions that few constructs reach (sim/reach.py)
            from . import reach

            reach.boosts()
            pop = reach.POPULARITY
            n_items = len(gen.FEATURES) + len(reach.FLAGS)
            ranked = sorted(cands, key=lambda q: (pop.get(q, 0) > n_items // 3, -score.get(q, 0),
                                                  lines.get(q, 0), q))
            policy = dict(policy, focus=ranked[int(arg) % len(ranked)])
        else:
            pick = _random.Random(int(arg))
            weights = [score.get(q, 1) ** 2 / max(1.0, lines.get(q, 1)) ** 0.5 for q in cands]
            policy = dict(policy, focus=pick.choices(cands, weights)[0])
    if policy.get("kind") == "point" and "k" not in policy:
        tids = [t["tid"] for t in threads]
        # the victim must be a thread that executes the focus function at all
        users = [t for t in tids if policy["focus"] in alone[t]["hot"]] or tids
        victim = users[policy["victim"] % len(users)]
        n_lines = alone[victim]["hot"].get(policy["focus"], [1, 1])[0]
        policy = dict(policy, victim=victim, k=1 + int(policy["kfrac"] * n_lines))
    res = run_threads(threads, policy, pre, trace_lark, k, cap)
    violations: List[Dict[str, Any]] = []
    stats: Dict[str, int] = {}
    if res["errors"] and not res["livelock"]:
        raise kit.HarnessError(f"worker harness error: {res['errors']}")
    if res["livelock"]:
        violations.append({"oracle": "bounded-liveness", "steps": res["steps"], "alone_steps": k,
                           "deadlock": res["deadlock"],
                           "sig": {"oracle": "bounded-liveness", "deadlock": res["deadlock"]}})
    runner_of = {t["tid"]: t["ops"][0]["cfg"]["runner"] for t in threads}
    for t in threads:
        tid = t["tid"]
        got = res["outs"][str(tid)]
        want = alone[tid]["out"]
        for i, op in enumerate(t["ops"]):
            stats[f"op_{op['op']}"] = stats.get(f"op_{op['op']}", 0) + 1
            if i >= len(got):
                break
            g = got[i]
            w = want[i] if i < len(want) else {}
            if "aborted" in g:
                stats["fault_abort_fired"] = stats.get("fault_abort_fired", 0) + 1
            if g.get("fp") and g["fp"][0] == "CELEvalError":
                stats["fault_eval_error"] = stats.get("fault_eval_error", 0) + 1
            gf = [g.get("fp"), bool(g.get("skipped")), "aborted" in g]
            wf = [w.get("fp"), bool(w.get("skipped")), "aborted" in w]
            if gf != wf and not res["livelock"] and not (
                    gf[1:] == wf[1:] and kit.same_outcome(gf[0], wf[0])):
                violations.append({
                    "oracle": "alone-mismatch", "thread": tid, "op_index": i, "op": op["op"],
                    "runner": runner_of[tid], "interleaved": g.get("fp") or g, "alone": w.get("fp") or w,
                    "sig": {"oracle": "alone-mismatch", "op": op["op"], "runner": runner_of[tid],
                            "interleaved": (g.get("fp") or ["-", "-"])[:2],
                            "alone": (w.get("fp") or ["-", "-"])[:2]},
                })
    # reach probes over the recorded schedule
    sites = []
    pairs = set()
    nontrivial = False
    for tid_, local, nxt, left, resumed in res["switches"]:
        if local < 0:
            continue
        sites.append(f"{left}>{resumed}")
        pairs.add(f"{left}>{resumed}")
        if resumed not in ("start", "exit"):
            nontrivial = True
        ql, qr = _q(left), _q(resumed)
        if left.startswith("S:"):
            stats["probe_switch_in_transpiled_code"] = stats.get("probe_switch_in_transpiled_code", 0) + 1
        if ql == "Transpiler.evaluate":
            stats["probe_switch_in_Transpiler_evaluate"] = stats.get("probe_switch_in_Transpiler_evaluate", 0) + 1
        if ql == "CELParser.__init__":
            stats["probe_switch_in_CELParser_init"] = stats.get("probe_switch_in_CELParser_init", 0) + 1
            if qr == "CELParser.__init__":
                stats["probe_two_threads_in_CELParser_init"] = stats.get("probe_two_threads_in_CELParser_init", 0) + 1
        if ql == "CELParser.parse":
            stats["probe_switch_in_CELParser_parse"] = stats.get("probe_switch_in_CELParser_parse", 0) + 1
        if ql.startswith("NameContainer.load_") or ql.endswith(".clone"):
            stats["probe_switch_in_load_values_or_clone"] = stats.get("probe_switch_in_load_values_or_clone", 0) + 1
        if ql.startswith("Phase1Transpiler") or ql.startswith("Phase2Transpiler"):
            stats["probe_switch_in_transpile"] = stats.get("probe_switch_in_transpile", 0) + 1
        if ql.startswith("Evaluator."):
            stats["probe_switch_in_interpreter"] = stats.get("probe_switch_in_interpreter", 0) + 1
        if left.startswith("L:"):
            stats["probe_switch_in_lark"] = stats.get("probe_switch_in_lark", 0) + 1
    stats["steps"] = res["steps"]
    stats["preemptions"] = res["preemptions"]
    if res["lock_blocks"]:
        stats["probe_thread_blocked_on_library_lock"] = res["lock_blocks"]
    stats["policy_" + trace["policy"]["kind"]] = 1
    if policy.get("kind") in ("focus", "point"):
        stats["focus_" + str(policy["focus"])] = 1
    stats["threads"] = len(threads)
    stats["runners_" + "".join(sorted(set(runner_of.values())))] = 1
    if trace_lark:
        stats["trace_lark_runs"] = 1
    inter_digest = kit.digest(sites)
    return {
        "digest": kit.digest([sites, res["outs"]]),
        "violations": violations,
        "stats": stats,
        "nontrivial": nontrivial,
        "states": [],
        "transitions": [],
        "extra": {"interleavings": [inter_digest] if nontrivial else [],
                  "switch_site_pairs": sorted(pairs)},
        "switches": res["switches"],
        "log": [{"thread": t["tid"], "interleaved": res["outs"][str(t["tid"])],
                 "alone": alone[t["tid"]]["out"]} for t in threads]
        + [{"switches": res["switches"][:200]}],
    }


# --------------------------------------------------------------------------------------------
# minimisation


def _has(res: Dict[str, Any], sig: Dict[str, Any]) -> bool:
    return any(v["sig"] == sig for v in res["violations"])


def _try(trace: Dict[str, Any], sig: Dict[str, Any]) -> Optional[Dict[str, Any]]:
    if kit.expired():
        return None
    try:
        res = execute(trace)
    except kit.HarnessError:
        return None
    return res if _has(res, sig) else None


def shrink(trace: Dict[str, Any], sig: Dict[str, Any], budget: int = 150) -> Dict[str, Any]:
    # 1. freeze the schedule: explicit switch list recorded from a failing execution
    res = _try(trace, sig)
    if res is None:
        return trace
    cur = dict(trace, policy={"kind": "explicit",
                              "switches": [[a, b, c] for a, b, c, *_ in res["switches"]]})
    if _try(cur, sig) is None:
        return trace  # cannot freeze (would be nondeterminism; the driver re-checks)
    # 2. drop whole threads
    for t in list(cur["threads"]):
        if len(cur["threads"]) <= 2:
            break
        cand = dict(cur, threads=[x for x in cur["threads"] if x["tid"] != t["tid"]])
        if _try(cand, sig) is not None:
            cur = cand
    # 3. drop evaluations / second programs inside threads (dependency-closed by the executor)
    for ti in range(len(cur["threads"])):
        ops = cur["threads"][ti]["ops"]
        for oi in range(len(ops) - 1, 0, -1):
            if ops[oi]["op"] == "E":
                continue
            new_ops = ops[:oi] + ops[oi + 1:]
            cand = dict(cur, threads=[dict(t, ops=new_ops) if j == ti else t
                                      for j, t in enumerate(cur["threads"])])
            if _try(cand, sig) is not None:
                cur = cand
                ops = new_ops
    # 4. faults
    for ti in range(len(cur["threads"])):
        for oi, op in enumerate(cur["threads"][ti]["ops"]):
            if "abort" in op:
                new_ops = [dict(o) for o in cur["threads"][ti]["ops"]]
                del new_ops[oi]["abort"]
                cand = dict(cur, threads=[dict(t, ops=new_ops) if j == ti else t
                                          for j, t in enumerate(cur["threads"])])
                if _try(cand, sig) is not None:
                    cur = cand
    # 5. ddmin the switch list, re-recording after every success so local steps stay exact
    def fails(sw: List[List[int]]) -> bool:
        return _try(dict(cur, policy={"kind": "explicit", "switches": sw}), sig) is not None

    sw = cur["policy"]["switches"]
    # 5a. shortest failing prefix of the schedule (after it: run each thread to completion)
    lo, hi = 0, len(sw)
    while lo < hi:
        mid = (lo + hi) // 2
        if fails(sw[:mid]):
            hi = mid
        else:
            lo = mid + 1
    if fails(sw[:hi]):
        sw = sw[:hi]
    # 5b. remove "excursions": a switch away together with the switch back
    changed = True
    rounds = 0
    while changed and rounds < 4:
        changed = False
        rounds += 1
        i = 0
        while i < len(sw) - 1:
            cand = sw[:i] + sw[i + 2:]
            if fails(cand):
                sw = cand
                changed = True
            else:
                i += 1
    # 5c. classic ddmin on what is left
    sw = kit.ddmin(sw, fails, budget=budget)
    cur = dict(cur, policy={"kind": "explicit", "switches": sw})
    if cur["cfg"].get("pre"):
        cand = dict(cur, cfg=dict(cur["cfg"], pre=None))
        if _try(cand, sig) is not None:
            cur = cand
    cur["minimised"] = True
    return cur


def sample_view(trace: Dict[str, Any]) -> Dict[str, Any]:
    return trace


RULE = ("a case is one (workload, schedule) pair: 2-4 real threads, each with its own Environment, "
        "program(s) and bindings, run under the seeded baton-passing scheduler (policies pct(d<=3), "
        "random(p), hot(p), focus(function), point(function, line), roundrobin(q); pre-emption at every Python line of celpy and of "
        "transpiled code) and compared per operation with the same thread run alone; non-trivial = "
        "at least one pre-emptive switch that resumes a thread in the middle of its work; distinct = "
        "distinct digests of (sequence of switch sites, all outcomes)")

ASSUMPTIONS = [
    "pre-emption granularity is one Python source line of celpy / transpiled code (sys.monitoring "
    "LINE events); C extensions, lark (unless trace_lark) and the standard library are atomic",
    "the alone reference is the implementation itself: this decides non-interference, not "
    "semantic correctness",
    "free-running (OS-scheduled) stress is not used: its interleavings cannot be chosen or replayed",
]

COMPONENTS = {
    "real": ["celpy (all modules, incl. transpiled <string> code)", "lark", "google-re2", "pendulum",
             "threading.Thread (real threads, parked/released one at a time)"],
    "stubbed": ["the choice of which thread runs (seeded scheduler)",
                "construction of the 2nd, 3rd, ... identical Lark parser of a process (loaded from "
                "lark's serialisation of the first; the determinism sample re-runs with the real one)",
                "host callables in sim/hostfuncs.py (module-level defs outside celpy)"],
}
