"""Determinism self-tests.

verify(): given {seed: digest} obtained by a batch, re-execute each seed (a) again in this process
(reload isolation, second time), and (b) as the very first run of a brand-new interpreter started
under a different PYTHONHASHSEED and with lark's real parser
constructor (true process isolation, no construction shortcut).  All digests must agree; any mismatch is
a harness error (exit 2), never a violation.  (b) also cross-validates reload isolation against
real fresh-process isolation.

main(): the stand-alone self-test over many seeds of every claimed property
(`./check selftest [--tier thorough]`).
"""

from __future__ import annotations

import importlib
import json
import os
import subprocess
import sys
from concurrent.futures import ThreadPoolExecutor
from typing import Any, Dict, List, Tuple

from . import kit

_SNIPPET = r"""
import sys, json
sys.path.insert(0, {verif!r})
sys.dont_write_bytecode = True
import importlib
from sim import kit
kit.load_celpy()
mod = importlib.import_module({modname!r})
out = {{}}
for seed in {seeds!r}:
    res = mod.execute(mod.generate(seed, {tier!r}))
    out[str(seed)] = [res["digest"], len(res["violations"])]
print("DIGESTS " + json.dumps(out))
"""


def _fresh_interpreter(modname: str, tier: str, seeds: List[int], hashseed: str) -> Dict[str, Any]:
    # ... and with the real Lark constructor throughout (the batch uses the simulator's fast
    # construction of identical parsers, kit._patch_lark): the digests must not notice
    env = dict(os.environ, PYTHONHASHSEED=hashseed, VERIF_REAL_LARK="1")
    code = _SNIPPET.format(verif=kit.VERIF, modname=modname, seeds=seeds, tier=tier)
    # run from a file, not with -c: the main module of `python -c` has the file name "<string>",
    # which is also the file name of transpiled CEL programs
    import tempfile

    with tempfile.NamedTemporaryFile("w", suffix=".py", prefix="verif_selftest_", delete=False) as f:
        f.write(code)
        path = f.name
    try:
        p = subprocess.run([sys.executable, "-B", path], env=env, capture_output=True,
                           text=True, timeout=600)
    finally:
        os.unlink(path)
    for line in p.stdout.splitlines():
        if line.startswith("DIGESTS "):
            return json.loads(line[8:])
    raise kit.HarnessError(f"fresh interpreter failed (rc={p.returncode}): {p.stderr[-800:]}")


def verify(modname: str, tier: str, expected: Dict[int, str], per_process: int = 1) -> List[str]:
    """Returns a list of mismatch descriptions (empty = deterministic on this sample)."""
    mod = importlib.import_module(modname)
    kit.load_celpy()
    problems: List[str] = []
    seeds = sorted(expected)
    for seed in seeds:
        res = mod.execute(mod.generate(seed, tier))
        if res["digest"] != expected[seed]:
            problems.append(f"seed {seed}: in-process re-execution digest {res['digest']} != "
                            f"batch digest {expected[seed]}")
    groups = [seeds[i : i + per_process] for i in range(0, len(seeds), per_process)]
    hashseeds = ["1", "12345", "987654321", "42"]

    def job(ix_group: Tuple[int, List[int]]) -> Tuple[List[int], Dict[str, Any]]:
        ix, group = ix_group
        return group, _fresh_interpreter(modname, tier, group, hashseeds[ix % len(hashseeds)])

    with ThreadPoolExecutor(max_workers=min(8, max(1, len(groups)))) as ex:
        for group, got in ex.map(job, list(enumerate(groups))):
            for seed in group:
                d = got.get(str(seed), [None])[0]
                if d != expected[seed]:
                    problems.append(f"seed {seed}: fresh-interpreter digest {d} != batch digest "
                                    f"{expected[seed]}")
    return problems


def main(tier: str) -> int:
    from . import registry

    n = 32 if tier == "quick" else 256
    rc = 0
    only = [p for p in os.environ.get("VERIF_SELFTEST_PROPS", "").upper().split(",") if p]
    for prop, spec in sorted(registry.CHECKS.items()):
        if only and prop not in only:
            continue
        mod = importlib.import_module(spec["module"])
        kit.load_celpy()
        bseed = kit.batch_seed()
        if hasattr(mod, "make_seeds"):
            seeds = mod.make_seeds(bseed, n)
        else:
            seeds = [kit.H(bseed, prop, i) for i in range(n)]
        expected = {}
        for s in seeds:
            expected[s] = mod.execute(mod.generate(s, tier))["digest"]
        problems = verify(spec["module"], tier, expected, per_process=4)
        print(f"[selftest] {prop}: {len(seeds)} seeds x (2 in-process + 1 fresh interpreter under "
              f"another PYTHONHASHSEED): {len(problems)} mismatches")
        for p in problems[:5]:
            print(f"[selftest] {prop}: {p}")
        if problems:
            rc = 2
    return rc
