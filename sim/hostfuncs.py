"""Host-side callables used by the C05 / C16 workloads (module-level defs in a module that is *not*
part of celpy, as an application would have them)."""

# NB: celpy is looked up at call time: reload isolation replaces the celpy modules between runs.


def hf_add1(x):
    from celpy import celtypes

    return celtypes.IntType(int(x) + 1)


def hf_boom(x):
    # an exception class the library does not map: it leaves evaluate() mid-way
    raise RuntimeError("boom")


def size(x):  # shadows the built-in size() for the program it is bound to
    from celpy import celtypes

    return celtypes.IntType(4242)


def hf_refuse(x):
    # reports failure the CEL way: returns the error as a value instead of raising
    from celpy.evaluation import CELEvalError

    return CELEvalError("refused by the host", ValueError, ("refused",))


TABLE = {"hf_add1": hf_add1, "hf_boom": hf_boom, "size": size, "hf_refuse": hf_refuse}
_SHARED = {}


def variant(name, n):
    """Another implementation registered under the *same* CEL name (each thread / program of the
    host application may bind its own): adds 1000*n instead of 1."""

    def impl(x):
        from celpy import celtypes

        return celtypes.IntType(int(x) + 1000 * n)

    impl.__name__ = name
    return impl


def materialise(spec):
    """spec: None | {"style": "dict"|"list", "names": [...]}"""
    if spec is None:
        return None
    v = spec.get("variant")
    fns = [variant(n, v) if (v and n == "hf_add1") else TABLE[n] for n in spec["names"]]
    if spec["style"] == "list":
        return fns
    if spec.get("shared"):
        # the application keeps one mapping object and hands it to several programs
        key = (id(__import__("sys").modules.get("celpy")), tuple(spec["names"]), v)
        d = _SHARED.get(key)
        if d is None:
            _SHARED.clear()  # mappings belong to one run (one set of celpy modules)
            d = _SHARED[key] = {n: f for n, f in zip(spec["names"], fns)}
        return d
    return {n: f for n, f in zip(spec["names"], fns)}
