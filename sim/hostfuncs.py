"""Host-side callables used by the C05 / C16 workloads (module-level defs in a module that is *not*
part of celpy, as an application would have them)."""

# NB: celpy is looked up at call time: reload isolation replaces the celpy modules between runs.


def hf_add1(x):
    from celpy import celtypes

    return celtypes.IntType(int(x) + 1)


def hf_boom(x):
    # an exception class the library does not map: it leaves evaluate() mid-way
    raise RuntimeError("boom")


def size(x):  # shadows the built-in size() for the program it is bound to
    from celpy import celtypes

    return celtypes.IntType(4242)


TABLE = {"hf_add1": hf_add1, "hf_boom": hf_boom, "size": size}


def variant(name, n):
    """Another implementation registered under the *same* CEL name (each thread / program of the
    host application may bind its own): adds 1000*n instead of 1."""

    def impl(x):
        from celpy import celtypes

        return celtypes.IntType(int(x) + 1000 * n)

    impl.__name__ = name
    return impl


def materialise(spec):
    """spec: None | {"style": "dict"|"list", "names": [...]}"""
    if spec is None:
        return None
    v = spec.get("variant")
    fns = [variant(n, v) if (v and n == "hf_add1") else TABLE[n] for n in spec["names"]]
    if spec["style"] == "list":
        return fns
    return {n: f for n, f in zip(spec["names"], fns)}
