"""C14 — host functions bind uniformly as functions or methods and override built-ins.

The host callable is the one external party the library calls during evaluation.  The simulator owns
that party (sim/peers.py): every supplied function is an instrumented stub that records what it
received and returns a scripted value or fires an injected fault.  A run is a short history of
programs (so that a program without an override follows one with it) over both runner classes,
all supply styles and callable kinds.

Oracles
  S1-args     every recorded call received exactly the reference values of its argument expressions
  S1-count    the multiset of recorded calls lies between the calls that every evaluation strategy
              must make and those it may make (never more than once per reach)
  S3-meta     outcome(program with host calls and faults) == outcome(the same program with every
              host call replaced by a pure CEL expression for the stub's scripted value, or by a
              built-in erroring expression where the call is faulted / unbound) -- on the same runner
  S2-override an overridden built-in is used in its program; a later program without it gets the
              built-in; celpy.evaluation.base_functions is unchanged
  S4-unbound  a call of a name bound to no function is a CELEvalError (folded into S3-meta: the
              substitute is a built-in error)
The small reference evaluator (model) is used for S1; its outcome is also compared with the real
outcome, and a difference that S3-meta does not see is counted as `core_disagreement` (expected 0)
rather than reported, because it would be about operator semantics, not about host binding.
"""

from __future__ import annotations

import json
import sys
from typing import Any, Dict, List, Optional, Tuple

from . import kit

PROP = "C14"

INT_NAMES = ["f", "g", "h", "f0", "f1", "f2"]
BOOL_NAMES = ["p", "q", "p0", "p1"]
SHADOW = ["size", "contains", "startsWith", "matches"]
FAULT_KINDS = ["ret_err", "raise_value", "raise_type", "raise_value_sub", "raise_type_sub",
               "raise_value_noargs"]

ERR = "ERR"
UNBOUND_NAMES = {"nofn", "nopred", "bit_length", "real", "count", "index", "conjugate", "is_integer",
                 "isdigit", "upper"}


# --------------------------------------------------------------------------------------------
# mini-AST generation.  Nodes are JSON lists:
#   ["int", n] ["bool", b] ["str", s] ["var", name] ["ilist", [n...]]
#   ["call", name, style, [args]]          style: "g" global f(a,b) | "m" method a.f(b)
#   ["add", a, b] ["div0", a] ["eq", a, b] ["lt", a, b] ["and", a, b] ["or", a, b] ["not", a]
#   ["cond", c, a, b] ["idx", list, k] ["map", list, var, body] ["all"|"exists", list, var, body]
#   ["list", [int exprs]]  (list literal with computed elements)
#   ["errb"]  (1/0 == 1)


# construct -> production indices per type in AstGen.int_ / AstGen.bool_
AST_FEATURES: Dict[str, Dict[str, List[int]]] = {
    "call": {"int": [0, 1, 2, 3], "bool": [0, 1, 2]}, "shadow": {"int": [4], "bool": [3]},
    "add": {"int": [5, 9]}, "cond": {"int": [6], "bool": [9]}, "index": {"int": [7]},
    "div0": {"int": [8]}, "and_or": {"bool": [4, 5]}, "not": {"bool": [6]}, "cmp": {"bool": [7, 8]},
    "macro": {"bool": [10]},
}


class AstGen:
    def __init__(self, r: Any, cfg: Dict[str, Any]) -> None:
        self.r = r
        self.cfg = cfg
        self.vars: List[str] = []
        self.n_calls = 0

    def _pick(self, ty: str, n: int) -> int:
        """Swarm testing: the constructs featured by this run are chosen far more often."""
        feats = self.cfg.get("features") or []
        if feats and self.r.random() < 0.45:
            ks = [k for f in feats for k in AST_FEATURES.get(f, {}).get(ty, [])]
            if ks:
                return self.r.choice(ks)
        return self.r.randrange(n)

    def call(self, ty: str, d: int) -> List[Any]:
        r = self.r
        self.n_calls += 1
        pool = INT_NAMES if ty == "int" else BOOL_NAMES
        name = r.choice(pool[: self.cfg["n_names"]])
        if self.cfg["unbound_share"] and r.random() < self.cfg["unbound_share"]:
            # bound to no function -- also when the name happens to be spelled like a method of
            # the Python class that implements the receiver's CEL type
            name = r.choice(["nofn", "nofn", "bit_length", "real", "count", "index", "conjugate"]) \
                if ty == "int" else r.choice(["nopred", "nopred", "is_integer", "isdigit", "upper"])
        nargs = r.choice([0, 1, 1, 2, 2, 3])
        # (the root-scope spelling `.f(a)` is not generated: the statement names f(a, b) and a.f(b),
        # and the interpreter does not implement calls in that form at all -- it yields the function)
        style = r.choice(["g", "m"]) if nargs >= 1 else "g"
        args = []
        for _ in range(nargs):
            if r.random() < 0.2:
                # a non-int argument: the host must receive it with its CEL class
                args.append(r.choice([["str", r.choice(["", "abc"])], ["bool", r.random() < 0.5],
                                      ["ilist", [r.randrange(4) for _ in range(r.randrange(0, 3))]]]))
            else:
                args.append(self.int_(d - 1))
        return ["call", name, style, args]

    def shadow_call(self, ty: str) -> List[Any]:
        r = self.r
        self.n_calls += 1
        if ty == "int":
            arg = ["ilist", [r.randrange(5) for _ in range(r.randrange(0, 4))]] \
                if r.random() < 0.6 else ["str", r.choice(["", "a", "abc"])]
            return ["call", "size", r.choice(["g", "m"]), [arg]]
        name = r.choice(["contains", "startsWith", "matches"])
        s = ["str", r.choice(["abc", "ab", "b", ""])]
        t = ["str", r.choice(["a", "b", "bc", "abc"])]
        return ["call", name, "m" if r.random() < 0.8 else "g", [s, t]]

    def int_(self, d: int) -> List[Any]:
        r = self.r
        if d <= 0 or r.random() < 0.3:
            if self.vars and r.random() < 0.5:
                return ["var", r.choice(self.vars)]
            return ["int", r.choice([0, 1, 2, 3, 4, 5, 7, 10])]
        k = self._pick("int", 10)
        if k <= 3 and self.n_calls < 6:
            return self.call("int", d)
        if k == 4 and self.cfg["shadow"] and self.n_calls < 6:
            return self.shadow_call("int")
        if k == 5:
            return ["add", self.int_(d - 1), self.int_(d - 1)]
        if k == 6:
            return ["cond", self.bool_(d - 1), self.int_(d - 1), self.int_(d - 1)]
        if k == 7 or (k == 9 and r.random() < 0.5):
            return ["idx", self.list_(d - 1), r.choice([0, 0, 1, 3])]
        if k == 8 and r.random() < 0.5:
            return ["div0", self.int_(d - 1)]
        return ["add", self.int_(d - 1), ["int", r.choice([1, 2, 3])]]

    def list_(self, d: int) -> List[Any]:
        r = self.r
        if d <= 0 or r.random() < 0.3:
            return ["ilist", [r.randrange(6) for _ in range(r.randrange(0, 4))]]
        if r.random() < 0.6:
            # a list literal whose elements are computed (host calls among them)
            return ["list", [self.call("int", 1) if (self.n_calls < 6 and r.random() < 0.5)
                             else self.int_(d - 1) for _ in range(r.randrange(1, 4))]]
        v = r.choice(["v", "w", "v", "v", "f", "g", "p"])
        src = self.list_(d - 1)
        self.vars.append(v)
        try:
            body = self.int_(d - 1)
        finally:
            self.vars.pop()
        if r.random() < 0.3:
            self.vars.append(v)
            try:
                pred = self.bool_(d - 1)
            finally:
                self.vars.pop()
            return ["filter", src, v, pred]
        return ["map", src, v, body]

    def bool_(self, d: int) -> List[Any]:
        r = self.r
        if d <= 0 or r.random() < 0.15:
            return ["bool", r.random() < 0.5]
        k = self._pick("bool", 12)
        if k <= 2 and self.n_calls < 6:
            return self.call("bool", d)
        if k == 3 and self.cfg["shadow"] and self.n_calls < 6:
            return self.shadow_call("bool")
        if k == 4:
            return ["and", self.bool_(d - 1), self.bool_(d - 1)]
        if k == 5:
            return ["or", self.bool_(d - 1), self.bool_(d - 1)]
        if k == 6:
            return ["not", self.bool_(d - 1)]
        if k == 7:
            return ["eq", self.int_(d - 1), self.int_(d - 1)]
        if k == 8:
            return ["lt", self.int_(d - 1), self.int_(d - 1)]
        if k == 9:
            return ["cond", self.bool_(d - 1), self.bool_(d - 1), self.bool_(d - 1)]
        if k == 10:
            v = r.choice(["v", "w", "v", "v", "f", "g", "p"])
            src = self.list_(d - 1)
            self.vars.append(v)
            try:
                body = self.bool_(d - 1)
            finally:
                self.vars.pop()
            return [r.choice(["all", "exists", "all", "exists", "exists_one"]), src, v, body]
        return ["errb"] if r.random() < 0.4 else ["lt", self.int_(d - 1), ["int", 5]]


def calls_in(node: Any) -> List[List[Any]]:
    out = []
    if isinstance(node, list) and node:
        if node[0] == "call":
            out.append(node)
        for ch in node[1:]:
            if isinstance(ch, list):
                if ch and isinstance(ch[0], str) and ch[0] in _KINDS:
                    out.extend(calls_in(ch))
                else:
                    for x in ch:
                        if isinstance(x, list):
                            out.extend(calls_in(x))
    return out


_KINDS = {"int", "bool", "str", "var", "ilist", "list", "call", "add", "div0", "eq", "lt", "and", "or",
          "not", "cond", "idx", "map", "filter", "all", "exists", "exists_one", "errb"}


def generate(seed: int, tier: str = "quick") -> Dict[str, Any]:
    rc = kit.rng(seed, "config")
    rw = kit.rng(seed, "workload")
    rf = kit.rng(seed, "faults")
    cfg = {
        "n_names": rc.choice([1, 2, 3, 4]),
        "shadow": rc.random() < 0.4,
        "unbound_share": rc.choice([0.0, 0.0, 0.1, 0.3]),
        "fault_class": rc.choice(["none", "none", "faults", "faults", "faults"]),
        "depth": rc.choice([1, 2, 2, 3, 3, 4]),
        "n_programs": rc.choice([1, 1, 2, 3, 4]),
        # mostly one runner class per history: an Environment of the other class rebuilds the
        # Lark parser (85 ms), which would dominate the cost of a run
        "runners": rc.choice(["I", "C", "I", "C", "mixed"]),
        "features": rc.sample(sorted(AST_FEATURES), rc.choice([0, 0, 1, 2])),
        # all injected faults of the run are of one kind (or mixed), always / argument-dependent
        "fault_focus": rc.choice([None, None] + FAULT_KINDS),
        "fault_always": rc.random() < 0.5,
    }
    programs = []
    for i in range(cfg["n_programs"]):
        if programs and rw.random() < 0.2:
            # the application builds another program from the *same* Environment and AST object,
            # binding new callables (and a new fault plan) under the same names
            j = rw.randrange(len(programs))
            src = programs[j]
            faults2: Dict[str, Dict[str, Any]] = {}
            if cfg["fault_class"] == "faults":
                for n in src["supplied"]:
                    if rf.random() < 0.45:
                        faults2[n] = {"kind": cfg["fault_focus"] or rf.choice(FAULT_KINDS),
                                      "when": None if cfg["fault_always"] else rf.choice([None, None, 0, 1, 2, 3])}
            programs.append(dict(src, faults=faults2, reuse_of=src.get("reuse_of", j)))
            continue
        g = AstGen(rw, cfg)
        ast = g.int_(cfg["depth"]) if rw.random() < 0.45 else g.bool_(cfg["depth"])
        names = sorted({c[1] for c in calls_in(ast)} - UNBOUND_NAMES)
        style = rw.choice(["dict", "dict", "list"])
        kinds = {}
        for n in names:
            pool = ["module_def", "nested_def", "celpy_visible_def", "named_instance",
                    "named_partial"] if style == "list" else \
                ["module_def", "nested_def", "lambda", "instance", "bound_method", "partial",
                 "unhashable_instance", "unhashable_bound_method", "celpy_visible_def"]
            kinds[n] = rw.choice(pool)
        # a program *without* the override after one with it: drop the shadowing names sometimes
        supplied = [n for n in names if not (n in SHADOW and i > 0 and rw.random() < 0.6)]
        # overrides of built-in *operators* (they are functions named _+_, _||_, ... in the library)
        ops_overridden = []
        if rw.random() < 0.15:
            ops_overridden = rw.sample(["_+_", "_||_", "_&&_", "_?_:_"], rw.randrange(1, 3))
        if rw.random() < 0.08:
            supplied = []  # nothing supplied at all: every host name is unbound
        faults: Dict[str, Dict[str, Any]] = {}
        if cfg["fault_class"] == "faults" and supplied:
            for n in supplied:
                if rf.random() < 0.65:
                    faults[n] = {"kind": cfg["fault_focus"] or rf.choice(FAULT_KINDS),
                                 "when": None if cfg["fault_always"] else rf.choice([None, None, 0, 1, 2, 3])}
        programs.append({
            "runner": rw.choice(["I", "C"]) if cfg["runners"] == "mixed" else cfg["runners"],
            "ast": ast,
            "style": style,
            "supplied": supplied,
            "kinds": {n: kinds[n] for n in supplied},
            "faults": faults,
            "empty_as": rw.choice(["none", "empty"]) if not supplied else "n/a",
            "ops": ops_overridden,
            # variables in the evaluation data that are spelled like functions of the program:
            # functions and variables live in different namespaces, a call must still reach the function
            "bindings": ({n: rw.choice([10, 0, 3]) for n in rw.sample(names, rw.randrange(1, len(names) + 1))}
                         if names and rw.random() < 0.2 else {}),
        })
    return {"prop": PROP, "seed": seed, "cfg": cfg, "programs": programs}


# --------------------------------------------------------------------------------------------
# printing


def cel(node: Any) -> str:
    k = node[0]
    if k == "int":
        return str(node[1])
    if k == "bool":
        return "true" if node[1] else "false"
    if k == "str":
        return '"' + node[1] + '"'
    if k == "var":
        return node[1]
    if k == "ilist":
        return "[" + ", ".join(str(x) for x in node[1]) + "]"
    if k == "list":
        return "[" + ", ".join(cel(x) for x in node[1]) + "]"
    if k == "call":
        _, name, style, args = node
        texts = [cel(a) for a in args]
        if style == "m":
            return f"({texts[0]}).{name}({', '.join(texts[1:])})"
        if style == "r":
            return f".{name}({', '.join(texts)})"  # root-scope spelling of the same call
        return f"{name}({', '.join(texts)})"
    if k == "add":
        return f"({cel(node[1])} + {cel(node[2])})"
    if k == "div0":
        return f"({cel(node[1])} / 0)"
    if k == "eq":
        return f"({cel(node[1])} == {cel(node[2])})"
    if k == "lt":
        return f"({cel(node[1])} < {cel(node[2])})"
    if k == "and":
        return f"({cel(node[1])} && {cel(node[2])})"
    if k == "or":
        return f"({cel(node[1])} || {cel(node[2])})"
    if k == "not":
        return f"!({cel(node[1])})"
    if k == "cond":
        return f"({cel(node[1])} ? {cel(node[2])} : {cel(node[3])})"
    if k == "idx":
        return f"{cel(node[1])}[{node[2]}]"
    if k in ("map", "filter", "all", "exists", "exists_one"):
        return f"{cel(node[1])}.{k}({node[2]}, {cel(node[3])})"
    if k == "errb":
        return "(1 / 0 == 1)"
    raise ValueError(k)


def is_bool_name(name: str) -> bool:
    return name in BOOL_NAMES or name in ("nopred", "contains", "startsWith", "matches",
                                          "is_integer", "isdigit", "upper")


def substitute(node: Any, prog: Dict[str, Any]) -> Any:
    """Pure-CEL text equivalent of the program under its supply list and fault plan."""
    from . import peers

    k = node[0]
    if k in ("int", "bool", "str", "var", "ilist", "errb"):
        return cel(node)
    if k == "list":
        return "[" + ", ".join(substitute(x, prog) for x in node[1]) + "]"
    if k == "call":
        _, name, style, args = node
        texts = [substitute(a, prog) for a in args]
        err = "(1 / 0 == 1)" if is_bool_name(name) else "(1 / 0)"
        if name not in prog["supplied"]:
            if name in SHADOW:
                # not overridden in this program: the built-in itself
                if name == "size":
                    return f"size({texts[0]})"
                return f"({texts[0]}).{name}({texts[1]})"
            return _strict(texts, err)
        if name == "size":
            pure = f"(4242 + size({texts[0]}))"
        elif name == "contains":
            pure = f"!(({texts[0]}).contains({texts[1]}))"
        elif name == "startsWith":
            pure = f"!(({texts[0]}).startsWith({texts[1]}))"
        elif name == "matches":
            pure = f"(size({texts[0]}) == size({texts[1]}))"
        fault = prog["faults"].get(name)
        if fault is not None and fault["when"] is None:
            return _strict(texts, err)
        int_pos = [i for i, a in enumerate(args) if type_of(a) == "int"]
        terms = [texts[i] for i in int_pos] + ["13"] * (len(args) - len(int_pos))
        if fault is not None and args and name not in SHADOW and 0 in int_pos:
            # the stub fires when its first (int) argument equals `when`: a division that is by
            # zero exactly then makes the substitute fail the way a built-in does
            terms.append(f"0 * (1 / (({texts[0]}) == {fault['when']} ? 0 : 1))")
        if name in SHADOW:
            return pure
        if name in peers.INT_FUNCS:
            return "(" + " + ".join([str(1000 * peers.INT_FUNCS[name] + 7 * len(args))] + terms) + ")"
        s = " + ".join([str(len(args) + peers.BOOL_FUNCS[name])] + terms)
        return f"(({s}) % 2 == 0)"
    if k == "add":
        if "_+_" in prog.get("ops", []):
            return f"({substitute(node[1], prog)} + {substitute(node[2], prog)} + 1000)"
        return f"({substitute(node[1], prog)} + {substitute(node[2], prog)})"
    if k == "div0":
        return f"({substitute(node[1], prog)} / 0)"
    if k == "eq":
        return f"({substitute(node[1], prog)} == {substitute(node[2], prog)})"
    if k == "lt":
        return f"({substitute(node[1], prog)} < {substitute(node[2], prog)})"
    if k == "and":
        return f"({substitute(node[1], prog)} && {substitute(node[2], prog)})"
    if k == "or":
        return f"({substitute(node[1], prog)} || {substitute(node[2], prog)})"
    if k == "not":
        return f"!({substitute(node[1], prog)})"
    if k == "cond":
        return (f"({substitute(node[1], prog)} ? {substitute(node[2], prog)} : "
                f"{substitute(node[3], prog)})")
    if k == "idx":
        return f"{substitute(node[1], prog)}[{node[2]}]"
    if k in ("map", "filter", "all", "exists", "exists_one"):
        return f"{substitute(node[1], prog)}.{k}({node[2]}, {substitute(node[3], prog)})"
    raise ValueError(k)


def _strict(arg_texts: List[str], err: str) -> str:
    """An erroring expression that still evaluates the arguments strictly first is not needed:
    whether or not an argument errs, the substituted call is an error."""
    return err


# --------------------------------------------------------------------------------------------
# reference model: outcome + calls (must / may)


class Model:
    def __init__(self, prog: Dict[str, Any]) -> None:
        self.prog = prog
        self.must: List[Any] = []
        self.may: List[Any] = []
        # names called in the body of a macro whose *range* is already an error: an implementation
        # that carries errors as values (CompiledRunner: an error value of ?: / && / || held by a
        # list literal) may still run the body over the remaining elements before the error
        # surfaces; the statement does not fix how far a doomed evaluation goes on (same reason as
        # `may` for the siblings of an erroring operand).  Arguments must still be proper values.
        self.may_names: set = set()

    def run(self) -> Any:
        return self.ev(self.prog["ast"], {}, True, False)

    def ev(self, node: Any, env: Dict[str, Any], rec: bool, may: bool) -> Any:
        from . import peers

        k = node[0]
        if k == "int":
            return ["IntType", node[1]]
        if k == "bool":
            return ["BoolType", bool(node[1])]
        if k == "str":
            return ["StringType", node[1]]
        if k == "var":
            return env[node[1]]
        if k == "ilist":
            return ["ListType", [["IntType", x] for x in node[1]]]
        if k == "errb":
            return ERR
        if k == "list":
            vals = self.strict(node[1], env, rec, may)
            if any(v == ERR for v in vals):
                return ERR
            return ["ListType", vals]
        if k == "call":
            _, name, style, args = node
            vals = self.strict(args, env, rec, may)
            if any(v == ERR for v in vals):
                return ERR  # strict: the function is not invoked
            supplied = name in self.prog["supplied"]
            if not supplied:
                if name in SHADOW:
                    return self.builtin(name, vals)
                return ERR
            if rec:
                (self.may if may else self.must).append([name, vals])
            fault = self.prog["faults"].get(name)
            if fault is not None:
                when = fault["when"]
                if when is None or (vals and vals[0][0] == "IntType" and vals[0][1] == when):
                    return ERR
            return self.scripted(name, vals)
        if k == "add":
            a, b = self.strict([node[1], node[2]], env, rec, may)
            if a == ERR or b == ERR:
                return ERR
            if "_+_" in self.prog.get("ops", []):
                if rec:
                    (self.may if may else self.must).append(["_+_", [a, b]])
                return ["IntType", a[1] + b[1] + 1000]
            return ["IntType", a[1] + b[1]]
        if k == "div0":
            self.ev(node[1], env, rec, may)
            return ERR
        if k in ("eq", "lt"):
            a, b = self.strict([node[1], node[2]], env, rec, may)
            if a == ERR or b == ERR:
                return ERR
            return ["BoolType", a[1] == b[1] if k == "eq" else a[1] < b[1]]
        if k == "not":
            a = self.ev(node[1], env, rec, may)
            return ERR if a == ERR else ["BoolType", not a[1]]
        if k in ("and", "or"):
            decider = k == "or"
            va = self.ev(node[1], env, False, may)
            vb = self.ev(node[2], env, False, may)
            da = va != ERR and va[1] is decider
            db = vb != ERR and vb[1] is decider
            if rec:
                self.ev(node[1], env, True, may or (db and not da) or (da and db))
                self.ev(node[2], env, True, may or (da and not db) or (da and db))
            if da or db:
                return ["BoolType", decider]
            if va == ERR or vb == ERR:
                return ERR
            return ["BoolType", not decider]
        if k == "cond":
            c = self.ev(node[1], env, rec, may)
            if c == ERR:
                if rec:
                    self.ev(node[2], env, True, True)
                    self.ev(node[3], env, True, True)
                return ERR
            sel, other = (node[2], node[3]) if c[1] else (node[3], node[2])
            if rec:
                self.ev(other, env, True, True)
            return self.ev(sel, env, rec, may)
        if k == "idx":
            lst = self.ev(node[1], env, rec, may)
            if lst == ERR:
                return ERR
            if node[2] >= len(lst[1]):
                return ERR
            return lst[1][node[2]]
        if k == "map":
            lst = self.ev(node[1], env, rec, may)
            if lst == ERR:
                if rec:
                    self._doomed_body(node[3])
                return ERR
            silent = [self.ev(node[3], dict(env, **{node[2]: x}), False, may) for x in lst[1]]
            any_err = any(v == ERR for v in silent)
            if rec:
                for x in lst[1]:
                    self.ev(node[3], dict(env, **{node[2]: x}), True, may or any_err)
            if any_err:
                return ERR
            return ["ListType", silent]
        if k in ("filter", "exists_one"):
            lst = self.ev(node[1], env, rec, may)
            if lst == ERR:
                if rec:
                    self._doomed_body(node[3])
                return ERR
            silent = [self.ev(node[3], dict(env, **{node[2]: x}), False, may) for x in lst[1]]
            any_err = any(v == ERR for v in silent)
            if rec:
                for x in lst[1]:
                    self.ev(node[3], dict(env, **{node[2]: x}), True, may or any_err)
            if any_err:
                return ERR
            if k == "filter":
                return ["ListType", [x for x, v in zip(lst[1], silent) if v[1]]]
            return ["BoolType", sum(1 for v in silent if v[1]) == 1]
        if k in ("all", "exists"):
            lst = self.ev(node[1], env, rec, may)
            if lst == ERR:
                if rec:
                    self._doomed_body(node[3])
                return ERR
            decider = k == "exists"
            silent = [self.ev(node[3], dict(env, **{node[2]: x}), False, may) for x in lst[1]]
            decided = any(v != ERR and v[1] is decider for v in silent)
            # How far an implementation goes on once elements err is macro semantics (C02), taken
            # as given here: the CompiledRunner e.g. stops at the second erroring element.
            loose = decided or any(v == ERR for v in silent)
            if rec:
                for x in lst[1]:
                    self.ev(node[3], dict(env, **{node[2]: x}), True, may or loose)
            if decided:
                return ["BoolType", decider]
            if any(v == ERR for v in silent):
                return ERR
            return ["BoolType", not decider]
        raise ValueError(k)

    def _doomed_body(self, body: Any) -> None:
        def walk(n: Any) -> None:
            if isinstance(n, list):
                if n and n[0] == "call":
                    self.may_names.add(n[1])
                if n and n[0] == "add" and "_+_" in self.prog.get("ops", []):
                    self.may_names.add("_+_")
                for c in n:
                    walk(c)

        walk(body)

    def strict(self, nodes: List[Any], env: Dict[str, Any], rec: bool, may: bool) -> List[Any]:
        """Operands of a strict operator / arguments of a call: once one of them is an error the
        result is that error, and an implementation may or may not evaluate the others."""
        silent = [self.ev(n, env, False, may) for n in nodes]
        n_err = sum(1 for v in silent if v == ERR)
        if rec:
            for n, v in zip(nodes, silent):
                optional = n_err > 0 and not (v == ERR and n_err == 1)
                self.ev(n, env, True, may or optional)
        return silent

    @staticmethod
    def builtin(name: str, vals: List[Any]) -> Any:
        if name == "size":
            return ["IntType", len(vals[0][1])]
        s, t = vals[0][1], vals[1][1]
        if name == "contains":
            return ["BoolType", t in s]
        if name == "startsWith":
            return ["BoolType", s.startswith(t)]
        if name == "matches":
            import re

            return ["BoolType", re.search(t, s) is not None]
        raise ValueError(name)

    @staticmethod
    def scripted(name: str, vals: List[Any]) -> Any:
        from . import peers

        if name == "size":
            return ["IntType", 4242 + len(vals[0][1])]
        if name == "contains":
            return ["BoolType", not (vals[1][1] in vals[0][1])]
        if name == "startsWith":
            return ["BoolType", not vals[0][1].startswith(vals[1][1])]
        if name == "matches":
            return ["BoolType", len(vals[0][1]) == len(vals[1][1])]
        ints = sum(v[1] for v in vals if v[0] == "IntType")
        others = sum(1 for v in vals if v[0] != "IntType")
        if name in peers.INT_FUNCS:
            return ["IntType", 1000 * peers.INT_FUNCS[name] + 7 * len(vals) + ints + 13 * others]
        return ["BoolType", (ints + 13 * others + len(vals) + peers.BOOL_FUNCS[name]) % 2 == 0]


# --------------------------------------------------------------------------------------------
# execution


def _functions_for(prog: Dict[str, Any], tag: Any = None) -> Any:
    from . import peers

    ops = {n: peers.operator_override(n) for n in prog.get("ops", [])}
    if not prog["supplied"] and not ops:
        return None if prog.get("empty_as") != "empty" else ({} if prog["style"] == "dict" else [])
    fns = {n: peers.make_callable(prog["kinds"][n], n, tag) for n in prog["supplied"]}
    if prog["style"] == "list" and not ops:
        return list(fns.values())
    fns.update(ops)  # operator names are not identifiers: only the mapping form can bind them
    return fns


def _key(call: List[Any]) -> str:
    return kit.digest(call)


def exec_programs(trace: Dict[str, Any]) -> Dict[str, Any]:
    celpy = kit.fresh_celpy()
    import celpy.evaluation as ev

    from . import peers

    base_snapshot = {k: id(v) for k, v in ev.base_functions.items()}
    records = []
    built: Dict[int, Any] = {}
    for pi, prog in enumerate(trace["programs"]):
        runner = celpy.CompiledRunner if prog["runner"] == "C" else celpy.InterpretedRunner
        text = cel(prog["ast"])
        sub_text = substitute(prog["ast"], prog)
        rec: Dict[str, Any] = {"text": text, "sub_text": sub_text}
        peers.reset(prog["faults"])

        def host() -> Any:
            if prog.get("reuse_of") in built:
                env, ast = built[prog["reuse_of"]]
            else:
                env = celpy.Environment(runner_class=runner)
                ast = env.compile(text)
                built[pi] = (env, ast)
            fns = _functions_for(prog, pi)
            if isinstance(fns, dict):
                supplied_maps.append((fns, {k: id(v) for k, v in fns.items()}))
            return env.program(ast, functions=fns).evaluate(
                {k: celpy.celtypes.IntType(v) for k, v in prog.get("bindings", {}).items()})

        supplied_maps: List[Any] = []
        fp, _ = kit.outcome(host)
        rec["fp"] = fp
        for m, snap in supplied_maps:
            if {k: id(v) for k, v in m.items()} != snap:
                rec["mapping_modified"] = sorted(set(m) ^ set(snap)) or sorted(k for k in m if id(m[k]) != snap.get(k))
        rec["calls"] = [list(c) for c in peers.HISTORY]
        rec["stale"] = [[c[0], t] for c, t in zip(peers.HISTORY, peers.TAGS) if t is not None and t != pi]
        rec["fired"] = dict(peers.FIRED)
        peers.reset({})

        def pure() -> Any:
            env = celpy.Environment(runner_class=runner)
            return env.program(env.compile(sub_text)).evaluate(
                {k: celpy.celtypes.IntType(v) for k, v in prog.get("bindings", {}).items()})

        fp2, _ = kit.outcome(pure)
        rec["sub_fp"] = fp2
        rec["sub_calls"] = len(peers.HISTORY)
        now = {k: id(v) for k, v in ev.base_functions.items()}
        if now != base_snapshot:
            leaked = kit.host_leaks(ev.base_functions)
            if leaked:
                rec["base_changed"] = leaked[:8]
        records.append(rec)
    return {"records": records}


def _cls(fp: List[Any]) -> List[Any]:
    """Outcome class + value; all errors are one class."""
    if fp[0] == "value":
        return fp
    if fp[0] == "CELEvalError":
        return ["CELEvalError"]
    return ["exception", fp[1]]


def execute(trace: Dict[str, Any]) -> Dict[str, Any]:
    recs = exec_programs(trace)["records"]
    violations: List[Dict[str, Any]] = []
    stats: Dict[str, int] = {}
    combos = set()
    nontrivial = False
    for i, (prog, rec) in enumerate(zip(trace["programs"], recs)):
        model = Model(prog)
        want = model.run()
        base = {"program": i, "runner": prog["runner"], "style": prog["style"]}
        kinds_used = sorted(set(prog["kinds"].values()))
        # --- S3-meta
        model_agrees = True
        a, b = _cls(rec["fp"]), _cls(rec["sub_fp"])
        if b[0] == "exception":
            # the pure-CEL substitute itself crashed the library with a non-CEL exception: that is
            # about expression evaluation as such (C04), there is nothing to compare a host call to
            stats["pure_side_raw_exception"] = stats.get("pure_side_raw_exception", 0) + 1
        elif a != b:
            violations.append(dict(base, oracle="S3-meta", host=rec["fp"], pure=rec["sub_fp"],
                                   text=rec["text"], sub_text=rec["sub_text"], kinds=kinds_used,
                                   faults=prog["faults"],
                                   sig={"oracle": "S3-meta", "runner": prog["runner"],
                                        "host": a[:2], "pure": b[:2]}))
        else:
            # model outcome vs real outcome (core semantics, not host binding)
            real = a
            m = ["CELEvalError"] if want == ERR else ["value"] + _canon_model(want)
            if real[0] == "value":
                real = ["value", real[1], _unwrap(real[2])]
            if real != m:
                stats["core_disagreement"] = stats.get("core_disagreement", 0) + 1
                model_agrees = False
        # --- S1
        got_calls = rec["calls"]
        must = [[n, [_canon_model(v) for v in vals]] for n, vals in model.must]
        may = [[n, [_canon_model(v) for v in vals]] for n, vals in model.may]
        pool: Dict[str, int] = {}
        for c in must + may:
            pool[_key(c)] = pool.get(_key(c), 0) + 1
        need: Dict[str, int] = {}
        for c in must:
            need[_key(c)] = need.get(_key(c), 0) + 1
        seen: Dict[str, int] = {}
        for c in got_calls:
            seen[_key(c)] = seen.get(_key(c), 0) + 1
        def doomed(c: Any) -> bool:
            # a call made by a macro body whose range had already failed (Model.may_names), with
            # proper values as arguments
            return c[0] in model.may_names and "CELEvalError" not in json.dumps(c[1])

        unknown = [c for c in got_calls if _key(c) not in pool and not doomed(c)]
        repeated = [c for c in got_calls if _key(c) in pool and seen[_key(c)] > pool[_key(c)]
                    and not doomed(c)]
        missing = [c for c in must if seen.get(_key(c), 0) < need[_key(c)]]
        if not model_agrees:
            # which calls are reached follows from the model's evaluation; where the library's
            # operator / macro / literal semantics differ from it -- with or without host calls
            # (S3-meta agreed, see core_disagreement) -- that reasoning does not apply
            unknown, missing = [], []
        if want == ERR:
            # once the result is an error, how far an implementation went on evaluating the rest
            # is its own business (the interpreter e.g. leaves exists_one() by an exception that
            # skips the other operand of an enclosing ||): no call is *required* any more
            missing = []
        detail = dict(must=must[:6], may=may[:6], got=got_calls[:8], text=rec["text"],
                      kinds=kinds_used, faults=prog["faults"])
        if unknown:
            # a call the reference never makes with these arguments: wrong arguments (or a call of
            # a site that is not reached at all)
            violations.append(dict(base, oracle="S1-args", unexpected=unknown[:4], **detail,
                                   sig={"oracle": "S1-args", "runner": prog["runner"]}))
        elif repeated:
            violations.append(dict(base, oracle="S1-count", repeated=repeated[:4], **detail,
                                   sig={"oracle": "S1-count", "runner": prog["runner"],
                                        "detail": "more-than-once-per-reach"}))
        elif missing:
            # (which calls are required follows from the model's evaluation; where the library's
            # operator/macro semantics differ from it -- with or without host calls, see
            # core_disagreement -- that reasoning does not apply)
            violations.append(dict(base, oracle="S1-count", missing=missing[:4], **detail,
                                   sig={"oracle": "S1-count", "runner": prog["runner"],
                                        "detail": "required-call-not-made"}))
        if rec.get("base_changed"):
            violations.append(dict(base, oracle="S2-host-function-in-base-functions",
                                   detail=rec["base_changed"],
                                   sig={"oracle": "S2-host-function-in-base-functions"}))
        if rec.get("mapping_modified") is not None:
            violations.append(dict(base, oracle="S2-supplied-mapping-modified",
                                   detail=rec["mapping_modified"][:4],
                                   sig={"oracle": "S2-supplied-mapping-modified", "runner": prog["runner"]}))
        if rec.get("stale"):
            violations.append(dict(base, oracle="S2-callable-of-another-program-invoked",
                                   detail=rec["stale"][:4], text=rec["text"],
                                   sig={"oracle": "S2-callable-of-another-program-invoked",
                                        "runner": prog["runner"]}))
        if rec["sub_calls"]:
            # the substitute has no host calls and was given no functions: a stub can only have
            # been reached through a registration that outlived the program it was supplied to
            violations.append(dict(base, oracle="S2-host-function-outlived-its-program",
                                   text=rec["sub_text"], calls=rec["sub_calls"],
                                   sig={"oracle": "S2-host-function-outlived-its-program"}))
        # stats
        for kd, n in rec["fired"].items():
            stats[f"fault_{kd}_fired"] = stats.get(f"fault_{kd}_fired", 0) + n
        stats["programs"] = stats.get("programs", 0) + 1
        stats["host_calls"] = stats.get("host_calls", 0) + len(got_calls)
        stats[f"runner_{prog['runner']}"] = stats.get(f"runner_{prog['runner']}", 0) + 1
        stats[f"style_{prog['style']}"] = stats.get(f"style_{prog['style']}", 0) + 1
        for kd in kinds_used:
            stats[f"kind_{kd}"] = stats.get(f"kind_{kd}", 0) + 1
        calls = calls_in(prog["ast"])
        if any(c[2] == "m" for c in calls):
            stats["probe_method_syntax"] = stats.get("probe_method_syntax", 0) + 1
        if any(c[1] in SHADOW and c[1] in prog["supplied"] for c in calls):
            stats["probe_builtin_overridden"] = stats.get("probe_builtin_overridden", 0) + 1
        if any(c[1] in SHADOW and c[1] not in prog["supplied"] for c in calls) and any(
                any(c2[1] in SHADOW and c2[1] in p2["supplied"] for c2 in calls_in(p2["ast"]))
                for p2 in trace["programs"][:i]):
            stats["probe_builtin_after_override"] = stats.get("probe_builtin_after_override", 0) + 1
        if any(c[1] in UNBOUND_NAMES or (c[1] not in prog["supplied"] and c[1] not in SHADOW)
               for c in calls):
            stats["probe_unbound_name_called"] = stats.get("probe_unbound_name_called", 0) + 1
        if model.may:
            stats["probe_may_call_sites"] = stats.get("probe_may_call_sites", 0) + 1
        if rec["fp"][0] == "value" and rec["fired"]:
            stats["probe_fault_absorbed"] = stats.get("probe_fault_absorbed", 0) + 1
        if got_calls:
            nontrivial = True
            combos.add(kit.digest([_shape(prog["ast"]), prog["style"], kinds_used, prog["runner"],
                                   sorted((n, f["kind"], f["when"]) for n, f in prog["faults"].items())]))
    stats["steps"] = stats.get("host_calls", 0)
    return {
        "digest": kit.digest([[r["fp"], r["calls"], r["sub_fp"]] for r in recs]),
        "violations": violations,
        "stats": stats,
        "nontrivial": nontrivial,
        "states": [],
        "transitions": [],
        "extra": {"configurations": sorted(combos)},
        "log": [{"text": r["text"], "outcome": r["fp"], "pure": r["sub_fp"], "calls": r["calls"][:10]}
                for r in recs],
    }


def _shape(node: Any) -> Any:
    if not isinstance(node, list) or not node:
        return None
    k = node[0]
    if k in ("int", "bool", "str", "var", "ilist", "errb"):
        return k
    if k == "call":
        return ["call", node[1], node[2], [_shape(a) for a in node[3]]]
    if k == "list":
        return ["list", [_shape(a) for a in node[1]]]
    return [k] + [_shape(ch) for ch in node[1:] if isinstance(ch, list)]


def _canon_model(v: Any) -> Any:
    """Model value -> the same shape kit.canon gives to the real CEL value."""
    if v[0] == "ListType":
        return ["ListType", [_canon_model(x) for x in v[1]]]
    if v[0] == "BoolType":
        return [v[0], int(v[1])]  # celtypes.BoolType is an int subclass: kit.canon prints 0/1
    return [v[0], v[1]]


def _plain(v: Any) -> Any:
    if v[0] == "ListType":
        return [_canon_model(x) for x in v[1]]
    return v[1]


def _unwrap(x: Any) -> Any:
    return x


# --------------------------------------------------------------------------------------------
# minimisation


def shrink(trace: Dict[str, Any], sig: Dict[str, Any], budget: int = 100) -> Dict[str, Any]:
    def fails(progs: List[Dict[str, Any]]) -> bool:
        if not progs or kit.expired():
            return False
        try:
            res = execute(dict(trace, programs=progs))
        except kit.HarnessError:
            return False
        except (TypeError, KeyError, IndexError):
            return False  # an ill-typed simplification candidate: the model rejects it
        return any(v["sig"] == sig for v in res["violations"])

    progs = kit.ddmin(trace["programs"], fails, budget=budget)
    # simplify each AST: replace sub-trees by their children / by leaves while the failure stays
    changed = True
    rounds = 0
    while changed and rounds < 6:
        changed = False
        rounds += 1
        for pi in range(len(progs)):
            for cand_ast in _simpler(progs[pi]["ast"]):
                cand_prog = _reprog(progs[pi], cand_ast)
                cand = progs[:pi] + [cand_prog] + progs[pi + 1:]
                if fails(cand):
                    progs = cand
                    changed = True
                    break
    # drop faults
    for pi in range(len(progs)):
        for n in list(progs[pi]["faults"]):
            f2 = {k: v for k, v in progs[pi]["faults"].items() if k != n}
            cand = progs[:pi] + [dict(progs[pi], faults=f2)] + progs[pi + 1:]
            if fails(cand):
                progs = cand
    return dict(trace, programs=progs, minimised=True)


def _reprog(prog: Dict[str, Any], ast: Any) -> Dict[str, Any]:
    names = {c[1] for c in calls_in(ast)}
    supplied = [n for n in prog["supplied"] if n in names]
    return dict(prog, ast=ast, supplied=supplied,
                kinds={n: prog["kinds"][n] for n in supplied},
                faults={n: f for n, f in prog["faults"].items() if n in supplied})


def type_of(node: Any) -> str:
    k = node[0]
    if k in ("int", "add", "div0", "idx"):
        return "int"
    if k in ("bool", "eq", "lt", "and", "or", "not", "all", "exists", "exists_one", "errb"):
        return "bool"
    if k == "str":
        return "str"
    if k in ("ilist", "map", "filter", "list"):
        return "list"
    if k == "var":
        return "int"
    if k == "cond":
        return type_of(node[2])
    if k == "call":
        name = node[1]
        return "bool" if is_bool_name(name) else "int"
    raise ValueError(k)


def _simpler(node: Any) -> List[Any]:
    """Type-preserving simplification candidates for the (sub)tree: a child of the same type, a
    leaf of the same type, or the same node with one child simplified.  (The reference model is
    only valid on well-typed programs, so the minimiser must stay inside them.)"""
    out: List[Any] = []
    if not isinstance(node, list) or not node or node[0] in ("int", "bool", "str", "var", "ilist", "errb"):
        return out
    k = node[0]
    ty = type_of(node)
    subs = [(i, ch) for i, ch in enumerate(node) if i > 0 and isinstance(ch, list) and ch
            and isinstance(ch[0], str) and ch[0] in _KINDS]
    if k == "call":
        for j, a in enumerate(node[3]):
            if type_of(a) == ty and a[0] != "var":
                out.append(a)
            for s in _simpler(a):
                out.append(["call", node[1], node[2], node[3][:j] + [s] + node[3][j + 1:]])
            if a[0] != "int" and type_of(a) == "int":
                out.append(["call", node[1], node[2], node[3][:j] + [["int", 1]] + node[3][j + 1:]])
        return out
    if k == "list":
        if len(node[1]) > 1:
            for j in range(len(node[1])):
                out.append(["list", node[1][:j] + node[1][j + 1:]])
        for j, a in enumerate(node[1]):
            for s in _simpler(a):
                out.append(["list", node[1][:j] + [s] + node[1][j + 1:]])
        return out
    if k not in ("map", "filter", "all", "exists", "exists_one"):
        for _, ch in subs:
            if type_of(ch) == ty:
                out.append(ch)
    if ty == "int":
        out.append(["int", 1])
    elif ty == "bool":
        out.append(["bool", True])
        out.append(["bool", False])
    for i, ch in subs:
        for s in _simpler(ch):
            out.append(node[:i] + [s] + node[i + 1:])
    return out


def _is_unbound_call(node: Any, prog: Dict[str, Any]) -> bool:
    return (isinstance(node, list) and bool(node) and node[0] == "call"
            and node[1] not in prog["supplied"] and node[1] not in SHADOW)


def _walk(node: Any, prog: Dict[str, Any], in_list: bool, replace: bool) -> Any:
    """Finds (replace=False: returns True/False) or replaces by a built-in error (replace=True:
    returns the new tree) every call of an unbound name that lies inside an element expression of
    a list literal -- directly, or under operators through which the error value flows."""
    if not isinstance(node, list) or not node:
        return node if replace else False
    if in_list and _is_unbound_call(node, prog):
        return (["div0", ["int", 1]] if not is_bool_name(node[1]) else ["errb"]) if replace else True
    inside = in_list or node[0] == "list"
    if replace:
        out = [node[0]]
        for ch in node[1:]:
            if isinstance(ch, list):
                if ch and isinstance(ch[0], str) and ch[0] in _KINDS:
                    out.append(_walk(ch, prog, inside, True))
                else:
                    out.append([_walk(x, prog, inside, True) if isinstance(x, list) else x for x in ch])
            else:
                out.append(ch)
        return out
    for ch in node[1:]:
        if isinstance(ch, list):
            if ch and isinstance(ch[0], str) and ch[0] in _KINDS:
                if _walk(ch, prog, inside, False):
                    return True
            else:
                for x in ch:
                    if isinstance(x, list) and _walk(x, prog, inside, False):
                        return True
    return False


def _unbound_list_elements(node: Any, prog: Dict[str, Any]) -> bool:
    return bool(_walk(node, prog, False, False))


def _replace_unbound_list_elements(node: Any, prog: Dict[str, Any]) -> Any:
    return _walk(node, prog, False, True)


def _ast_group(trace: Dict[str, Any], i: int) -> List[int]:
    """Programs built from the same Environment / AST object as program i (reuse_of chains)."""
    root = trace["programs"][i].get("reuse_of", i)
    return [j for j, p in enumerate(trace["programs"]) if j == root or p.get("reuse_of") == root]


def _cf_unbound_list_elements(trace: Dict[str, Any], i: int) -> Optional[Dict[str, Any]]:
    prog = trace["programs"][i]
    if not _unbound_list_elements(prog["ast"], prog):
        return None
    # the AST object is shared by the whole group: replace the construct in all of them
    group = _ast_group(trace, i)
    progs = [dict(p, ast=_replace_unbound_list_elements(p["ast"], prog)) if j in group else p
             for j, p in enumerate(trace["programs"])]
    return dict(trace, programs=progs)


def _cf_celpy_visible(trace: Dict[str, Any], i: int) -> Optional[Dict[str, Any]]:
    prog = trace["programs"][i]
    if "celpy_visible_def" not in prog["kinds"].values():
        return None
    kinds = {n: ("module_def" if k == "celpy_visible_def" else k) for n, k in prog["kinds"].items()}
    cf_prog = dict(prog, kinds=kinds)
    return dict(trace, programs=trace["programs"][:i] + [cf_prog] + trace["programs"][i + 1:])


COUNTERFACTUALS = {
    # finding: the construct it names -> the same trace with exactly that construct replaced
    "unbound-call-as-list-literal-element": _cf_unbound_list_elements,
    "supplied-function-visible-to-celpy-as-module-qualname": _cf_celpy_visible,
}


def attribute_known(trace: Dict[str, Any], v: Dict[str, Any],
                    findings: List[Dict[str, Any]]) -> Optional[str]:
    """Is this violation an instance of a listed finding?  Decided by a counterfactual: the
    finding is the cause iff the failing program contains the construct the finding names and the
    violation disappears when exactly that construct is replaced (everything else unchanged) --
    an unbound call that is a list-literal element by a built-in erroring expression; a supplied
    function that celpy can spell as module.qualname by the same stub in the host's own module."""
    for f in findings:
        m = f.get("match", {})
        sig = dict(v["sig"])
        if "host" in sig:
            sig["host_kind"] = sig["host"][0]
        if not all(sig.get(k) == val for k, val in m.items()):
            continue
        make = COUNTERFACTUALS.get(f.get("counterfactual", ""))
        i = v.get("program")
        if make is None or i is None or i >= len(trace["programs"]):
            continue
        cf = make(trace, i)
        if cf is None:
            continue
        res = execute(cf)
        if not any(x.get("program") == i for x in res["violations"]):
            return f["id"]
    return None


def sample_view(trace: Dict[str, Any]) -> Dict[str, Any]:
    return {"seed": trace["seed"], "cfg": trace["cfg"],
            "programs": [{"runner": p["runner"], "text": cel(p["ast"]), "style": p["style"],
                          "kinds": p["kinds"], "supplied": p["supplied"], "faults": p["faults"]}
                         for p in trace["programs"]]}


RULE = ("a case is a history of 1-4 programs with host calls (global/method syntax, 0-3 arguments, "
        "nested in && || ! ?: == and map/all/exists bodies) x supply style (list/dict) x callable "
        "kind (module-level def, nested def, lambda, callable object (also unhashable), bound method "
        "(also of an unhashable object), partial, name shadowing a built-in; variables and macro "
        "variables spelled like functions) x runner class x fault plan at the host seam (returned CELEvalError, "
        "raised ValueError/TypeError and subclasses, unbound name); non-trivial = at least one host "
        "stub was actually reached; distinct = distinct (expression shape, supply style, callable "
        "kinds, runner, fault vector) tuples among non-trivial programs")

ASSUMPTIONS = [
    "host callables are the simulator's instrumented stubs (sim/peers.py); everything else is real",
    "S3 is metamorphic on the same runner: the pure-CEL substitute of a host call must behave like "
    "the host call; the absorbing rules of && || ?: themselves are taken as given (C02)",
    "call-count bounds allow an implementation to evaluate or skip operands whose value cannot "
    "change the result (unselected ?: branch, operand next to a deciding && / || operand, macro "
    "bodies once an element decided)",
]

COMPONENTS = {
    "real": ["celpy (both runners, transpiler, Activation function lookup)", "lark", "google-re2"],
    "stubbed": ["host callables (instrumented peers with scripted returns and injected faults)"],
}
