"""Typed CEL expression / declaration / binding generators shared by C05 and C16.

Everything is driven by a random.Random handed in by the caller (a sub-stream of the run seed) and
produces plain JSON-able specs; `materialise_*` turn specs into celpy objects inside the child that
executes a trace.
"""

from __future__ import annotations

import random
from typing import Any, Dict, List, Optional, Tuple

# declared variable universe: name -> type tag
FLAT = {"x": "int", "y": "int", "s": "string", "l": "list", "m": "map"}
DOTTED = {"a.b": "int", "a.c.d": "int", "q.r": "string"}
PKG = {"p.x": "int", "p.k.z": "int"}

DECL_SETS = {
    "none": {},
    "flat": dict(FLAT),
    "dotted": dict(DOTTED),
    "both": {**FLAT, **DOTTED},
    "pkg": {**FLAT, **DOTTED, **PKG},
}


def gen_env(r: random.Random, runner: Optional[str] = None) -> Dict[str, Any]:
    decl_kind = r.choice(["none", "flat", "flat", "dotted", "both", "both", "both", "pkg"])
    package = None
    if decl_kind == "pkg" or r.random() < 0.15:
        package = r.choice(["p", "p", "p.k"])
    return {
        "runner": runner or r.choice(["I", "C"]),
        "decls": decl_kind,
        "package": package,
    }


# construct name -> {type: production indices in the typed generators below}
FEATURES: Dict[str, Dict[str, List[int]]] = {
    "arith": {"int": [0, 1, 2]}, "divmod": {"int": [3]}, "cond": {"int": [4], "bool": [12], "str": [2], "list": [5]},
    "size": {"int": [5, 8]}, "index": {"int": [6]}, "mapkey": {"int": [7]}, "host": {"int": [9]},
    "int_conv": {"int": [10]}, "cmp": {"bool": [0, 1, 2]}, "and_or": {"bool": [3, 4]},
    "not": {"bool": [5]}, "has": {"bool": [6]}, "macro_bool": {"bool": [7, 8]},
    "strfn": {"bool": [9]}, "matches": {"bool": [9]}, "in": {"bool": [10]}, "streq": {"bool": [11]},
    "concat": {"str": [0], "list": [3]}, "dyn": {"list": [6]}, "string_conv": {"str": [1]}, "listlit": {"list": [0]},
    "map": {"list": [1]}, "filter": {"list": [2]}, "duration": {"bool": [13]}, "ts_accessor": {"int": [11]},
    # not a construct but a preference among names: the package-relative spellings (var())
    "pkgname": {"int": [0, 1, 2], "bool": [0, 1, 2]},
}


class ExprGen:
    """Generates expressions over the names visible in an environment.  `salt` makes the constants
    of one generator instance distinctive (used by C16 so that a value crossing threads shows)."""

    def __init__(self, r: random.Random, decls: Dict[str, str], salt: int = 0,
                 undeclared: bool = True, host: Optional[List[str]] = None,
                 size_focus: bool = False, features: Optional[List[str]] = None,
                 bias: float = 0.7) -> None:
        self.r = r
        self.decls = decls
        self.salt = salt
        self.undeclared = undeclared
        self.host = host or []
        self.size_focus = size_focus
        # swarm testing: the constructs featured by this run are chosen far more often, so that
        # several threads / programs of one run use the same (otherwise rare) library function
        self.features = features or []
        self.bias = bias  # share of the choices that go to a featured construct
        self.macro_vars: List[Tuple[str, str]] = []  # (name, type) in scope

    # -- helpers --------------------------------------------------------------------------------
    def const(self) -> int:
        return self.salt * 1000 + self.r.choice([0, 1, 2, 3, 5, 7, 11, 13, 100])

    def names(self, ty: str) -> List[str]:
        ns = [n for n, t in self.decls.items() if t == ty]
        ns += [n for n, t in self.macro_vars if t == ty]
        # package-relative spellings
        ns += [n[2:] for n in list(ns) if n.startswith("p.")]
        return ns

    def var(self, ty: str) -> Optional[str]:
        ns = self.names(ty)
        if self.undeclared and self.r.random() < 0.05:
            return self.r.choice(["zz", "a.zz", "undeclared.name"])
        if self.undeclared and self.r.random() < 0.10:
            # a name of the universe that this environment may not declare (another one may)
            pool = [n for n, t in {**FLAT, **DOTTED, **PKG}.items() if t == ty]
            if pool:
                return self.r.choice(pool)
        if not ns:
            return None
        if "pkgname" in self.features and self.r.random() < self.bias:
            rel = [n[2:] for n in ns if n.startswith("p.")]
            if rel:
                return self.r.choice(rel)
        n = self.r.choice(ns)
        if self.r.random() < 0.05 and "." not in n:
            return "." + n  # root-scope reference
        return n

    def _pick(self, ty: str, n: int) -> int:
        if self.features and self.r.random() < self.bias:
            ks = [k for f in self.features for k in FEATURES.get(f, {}).get(ty, [])]
            if ks:
                return self.r.choice(ks)
        return self.r.randrange(n)

    # -- typed generators -----------------------------------------------------------------------
    def int_(self, d: int) -> str:
        r = self.r
        if d <= 0 or r.random() < 0.25:
            v = self.var("int")
            if v is not None and r.random() < 0.7:
                return v
            return str(self.const())
        k = self._pick("int", 12)
        if self.size_focus and r.random() < 0.4:
            lst = self.list_(d - 1)
            return f"size({lst})" if r.random() < 0.6 else f"{lst}.size()"
        if k <= 2:
            op = r.choice(["+", "-", "*", "+", "-"])
            return f"({self.int_(d - 1)} {op} {self.int_(d - 1)})"
        if k == 3:
            op = r.choice(["/", "%"])
            return f"({self.int_(d - 1)} {op} {self.int_(d - 1)})"
        if k == 4:
            return f"({self.bool_(d - 1)} ? {self.int_(d - 1)} : {self.int_(d - 1)})"
        if k == 5:
            return f"size({self.list_(d - 1)})"
        if k == 6:
            return f"{self.list_(d - 1)}[{r.choice([0, 0, 1, 2, 5])}]"
        if k == 7:
            mv = self.var("map")
            # the absent key carries the salt: the error texts of different threads differ
            key = r.choice(["k1", "k2", "nokey", f"nokey{self.salt}"])
            if mv is None:
                return f'{{"k1": {self.int_(d - 1)}}}["{key}"]'
            return r.choice([f'{mv}["{key}"]', f"{mv}.{key}"])
        if k == 8:
            return f"size({self.str_(d - 1)})"
        if k == 9 and self.host:
            h = r.choice(self.host)
            return f"{h}({self.int_(d - 1)})" if r.random() < 0.5 else f"({self.int_(d - 1)}).{h}()"
        if k == 10:
            return f"int({self.str_lit_num()})"
        if k == 11:
            # timestamp accessors with a zone argument: the zone texts come from a small pool whose
            # members differ only in sign / spelling, so that two evaluations of one history (or two
            # threads) use near-identical zone texts (a memo keyed too coarsely shows as a wrong field)
            acc = r.choice(["getHours", "getDate", "getDayOfMonth", "getDayOfWeek", "getDayOfYear",
                            "getFullYear", "getMonth", "getMinutes", "getSeconds", "getHours"])
            mags = ["05:00", "02:30", "13:00", "00:45"]
            mag = mags[(r.randrange(len(mags)) + self.salt) % len(mags)] if r.random() < 0.3 else mags[0]
            zone = r.choice([f'"+{mag}"', f'"-{mag}"', f'"{mag}"', f'"-{mag}"', f'"+{mag}"', '"UTC"',
                             '"America/New_York"', '"Asia/Tokyo"', ""])
            day = 1 + (self.salt + r.randrange(3)) % 27
            return f'timestamp("2009-02-{day:02d}T23:31:30Z").{acc}({zone})'
        return f"({self.int_(d - 1)} + {self.const()})"

    def str_lit_num(self) -> str:
        return f'"{self.const()}"'

    def str_(self, d: int) -> str:
        r = self.r
        if d <= 0 or r.random() < 0.4:
            v = self.var("string")
            if v is not None and r.random() < 0.6:
                return v
            return '"' + r.choice(["", "a", "ab", "abc", "xyz"]) + str(self.salt) + '"'
        k = self._pick("str", 4)
        if k == 0:
            return f"({self.str_(d - 1)} + {self.str_(d - 1)})"
        if k == 1:
            return f"string({self.int_(d - 1)})"
        if k == 2:
            return f"({self.bool_(d - 1)} ? {self.str_(d - 1)} : {self.str_(d - 1)})"
        return self.str_(0)

    def list_(self, d: int) -> str:
        r = self.r
        if d <= 0 or r.random() < 0.35:
            v = self.var("list")
            if v is not None and r.random() < 0.6:
                return v
            n = r.randrange(0, 4)
            return "[" + ", ".join(str(self.const() + i) for i in range(n)) + "]"
        k = self._pick("list", 7)
        if k == 0:
            return "[" + ", ".join(self.int_(d - 1) for _ in range(r.randrange(1, 4))) + "]"
        if k == 5:
            # a list that is not a literal and not a plain variable: whatever the branch yields is
            # the caller's own object when it is a bound variable
            # (mostly over leaves: the result then *is* one of the caller's objects)
            dd = 0 if r.random() < 0.7 else d - 1
            return f"({self.bool_(d - 1)} ? {self.list_(dd)} : {self.list_(dd)})"
        if k == 6:
            return f"dyn({self.list_(0 if r.random() < 0.7 else d - 1)})"
        if k in (1, 2):
            src = self.list_(d - 1)
            v = self.macro_var()
            self.macro_vars.append((v, "int"))
            try:
                if k == 1:
                    body = self.int_(d - 1)
                    return f"{src}.map({v}, {body})"
                body = self.bool_(d - 1)
                return f"{src}.filter({v}, {body})"
            finally:
                self.macro_vars.pop()
        if k == 3:
            return f"({self.list_(d - 1)} + {self.list_(d - 1)})"
        return self.list_(0)

    def macro_var(self) -> str:
        # sometimes shadow a declared binding, sometimes reuse the enclosing macro's variable
        return self.r.choice(["v", "v", "v", "w", "x", "i"])

    def bool_(self, d: int) -> str:
        r = self.r
        if d <= 0 or r.random() < 0.15:
            return r.choice(["true", "false", f"{self.int_(0)} > {self.const()}"])
        k = self._pick("bool", 14)
        if k <= 2:
            op = r.choice(["<", "<=", ">", ">=", "==", "!="])
            return f"({self.int_(d - 1)} {op} {self.int_(d - 1)})"
        if k == 3:
            return f"({self.bool_(d - 1)} && {self.bool_(d - 1)})"
        if k == 4:
            return f"({self.bool_(d - 1)} || {self.bool_(d - 1)})"
        if k == 5:
            return f"!({self.bool_(d - 1)})"
        if k == 6:
            mv = self.var("map")
            if mv is not None:
                return f"has({mv}.{r.choice(['k1', 'k2', 'nokey'])})"
            return f'has({{"k1": 1}}.{r.choice(["k1", "nokey"])})'
        if k in (7, 8):
            src = self.list_(d - 1)
            v = self.macro_var()
            self.macro_vars.append((v, "int"))
            try:
                body = self.bool_(d - 1)
            finally:
                self.macro_vars.pop()
            m = r.choice(["all", "exists", "exists_one", "all", "exists"])
            return f"{src}.{m}({v}, {body})"
        if k == 9:
            if r.random() < 0.4 or "matches" in self.features:
                # regular expressions; the pattern depends on the salt so that threads differ
                pats = ["^a", "b$", "^[a-z]+$", "a.c", "^$", "[0-9]+", "^[^0-9]*$", "c"]
                # rotated by the salt: generators that share a shape still use different patterns
                pat = pats[(r.randrange(len(pats)) + self.salt) % len(pats)]
                return f'{self.str_(d - 1)}.matches("{pat}")'
            fn = r.choice(["startsWith", "endsWith", "contains"])
            return f"{self.str_(d - 1)}.{fn}({self.str_(0)})"
        if k == 10:
            return f"({self.int_(d - 1)} in {self.list_(d - 1)})"
        if k == 11:
            return f"({self.str_(d - 1)} == {self.str_(d - 1)})"
        if k == 13:
            # durations / timestamps: text conversions with their own parsing machinery
            du = ["30s", "90s", "1m", "1h", "1.5s", "100ms"]
            a = du[(r.randrange(len(du)) + self.salt) % len(du)]
            b = du[r.randrange(len(du))]
            if r.random() < 0.7:
                return f'(duration("{a}") {r.choice(["<", ">", "==", "<="])} duration("{b}"))'
            return f'(timestamp("2020-01-0{1 + self.salt % 8}T00:00:00Z") + duration("{a}") > timestamp("2020-01-02T00:00:00Z"))'
        return f"({self.bool_(d - 1)} ? {self.bool_(d - 1)} : {self.bool_(d - 1)})"

    def any_(self, d: int) -> str:
        k = self.r.randrange(10)
        if k < 4:
            return self.int_(d)
        if k < 7:
            return self.bool_(d)
        if k < 8:
            return self.str_(d)
        return self.list_(d)


def gen_deep_expr(r: random.Random, decls: Dict[str, str], salt: int = 0) -> str:
    """Deeply nested but small expressions (CEL requires tens of nesting levels to work); they need
    far more Python stack than ordinary ones."""
    g = ExprGen(r, decls, salt, undeclared=False)
    n = r.choice([12, 20, 28, 32, 40, 48, 60, 80])
    style = r.randrange(5)
    core = g.int_(1)
    if style == 0:
        return "(" * n + core + ")" * n
    if style == 1:
        e = core
        for i in range(n):
            e = f"({g.const()} + {e})"
        return e
    if style == 2:
        e = core
        for i in range(n):
            e = f"(true ? {e} : {g.const()})"
        return e
    if style == 3:
        return "[" * n + core + "]" * n + "[0]" * n
    e = core
    for i in range(n):
        e = f"[{e}].map(v, v)[0]" if i % 8 == 0 else f"({e})"
    return e


INVALID_TEXTS = ["1 +", "(x", "x ? 1", "[1, 2", "x +* 2", '"abc', "1 2", "a..b", ""]


def gen_expr(r: random.Random, decls: Dict[str, str], salt: int = 0, depth: Optional[int] = None,
             invalid_share: float = 0.04, host: Optional[List[str]] = None,
             size_focus: bool = False, deep_share: float = 0.0,
             features: Optional[List[str]] = None, bias: float = 0.7) -> str:
    if r.random() < invalid_share:
        return r.choice(INVALID_TEXTS)
    if deep_share and r.random() < deep_share:
        return gen_deep_expr(r, decls, salt)
    g = ExprGen(r, decls, salt, host=host, size_focus=size_focus, features=features, bias=bias)
    d = depth if depth is not None else r.choice([1, 2, 2, 3, 3, 4])
    if features:
        d = max(d, 2)
        # the root is of a type in which a featured construct can occur at all
        tys = sorted({ty for f in features for ty in FEATURES.get(f, {})})
        if tys and r.random() < max(0.6, bias):
            ty = r.choice(tys)
            return {"int": g.int_, "bool": g.bool_, "str": g.str_, "list": g.list_}[ty](d)
        return g.any_(d)
    if size_focus:
        return g.int_(max(d, 1)) if r.random() < 0.7 else g.bool_(max(d, 2))
    return g.any_(d)


# -- bindings ----------------------------------------------------------------------------------


def gen_value(r: random.Random, ty: str, salt: int = 0) -> Any:
    base = salt * 1000
    if ty == "int":
        return base + r.choice([0, 1, 2, 3, 4, 7, 12, 50, -1])
    if ty == "string":
        return r.choice(["", "a", "ab", "abc", "zzz"]) + str(salt)
    if ty == "list":
        return [base + r.randrange(0, 9) for _ in range(r.randrange(0, 4))]
    if ty == "map":
        keys = r.sample(["k1", "k2", "k3"], r.randrange(0, 3))
        return {k: base + r.randrange(0, 9) for k in keys}
    raise ValueError(ty)


# values that compare (and hash) equal across CEL types: true == 1 == 1.0, false == 0 == 0.0
TYPE_MIX = [0, 1, True, False, 0.0, 1.0, 2, 2.0]


def equal_variant(r: random.Random, b: Dict[str, Any]) -> Dict[str, Any]:
    """The same bindings with every small number / boolean replaced by a value of another type that
    compares equal to it (what a cache keyed by the bindings cannot tell apart)."""
    out: Dict[str, Any] = {}
    for k, v in b.items():
        alts = ([x for x in TYPE_MIX if x == v and type(x) is not type(v)]
                if isinstance(v, (bool, int, float)) else [])
        out[k] = r.choice(alts) if alts else v
    return out


def gen_bindings(r: random.Random, decls: Dict[str, str], salt: int = 0,
                 missing_share: float = 0.2, extra_share: float = 0.05,
                 package_as_document: bool = False, type_mix: bool = False,
                 scalar_only: bool = False) -> Dict[str, Any]:
    b: Dict[str, Any] = {}
    if r.random() < 0.08 and not package_as_document:
        return b  # no bindings at all
    for name, ty in decls.items():
        if r.random() < missing_share:
            continue
        if scalar_only and ty in ("list", "map"):
            continue  # bindings that consist of scalars only (hashable as a whole)
        b[name] = gen_value(r, ty, salt)
        if type_mix and ty == "int" and r.random() < 0.7:
            # a value of another type than declared, equal to values of yet other types
            b[name] = r.choice(TYPE_MIX)
    if r.random() < extra_share:
        b[r.choice(["zz", "a.zz", "extra"])] = gen_value(r, "int", salt)
    if r.random() < 0.03:
        # a whole namespace supplied as one map value (alternative spelling of dotted names)
        b.pop("a.b", None)
        b.pop("a.c.d", None)
        b["a"] = {"b": gen_value(r, "int", salt)}
    if "p.x" in decls and (package_as_document or r.random() < 0.15):
        # the package itself bound to a document (the CLI's "jq" configuration): names are then
        # found inside the mapping
        b.pop("p.x", None)
        b.pop("p.k.z", None)
        b["p"] = {"x": gen_value(r, "int", salt), "k": {"z": gen_value(r, "int", salt)}}
    return b


# -- materialisation (inside the child) ----------------------------------------------------------


def materialise_decls(kind_or_map: Any) -> Dict[str, Any]:
    from celpy import celtypes

    decls = DECL_SETS[kind_or_map] if isinstance(kind_or_map, str) else kind_or_map
    ty = {
        "int": celtypes.IntType,
        "string": celtypes.StringType,
        "list": celtypes.ListType,
        "map": celtypes.MapType,
        "bool": celtypes.BoolType,
    }
    return {n: ty[t] for n, t in decls.items()}


def materialise_bindings(spec: Dict[str, Any]) -> Dict[str, Any]:
    import celpy

    return {k: celpy.json_to_cel(v) for k, v in spec.items()}


def decl_map(kind_or_map: Any) -> Dict[str, str]:
    return DECL_SETS[kind_or_map] if isinstance(kind_or_map, str) else kind_or_map
