"""C05 — evaluation is a function of expression and bindings, independent of history.

A run is a seeded history of public-API operations {E new Environment, K compile, P program,
V evaluate} over several environments / programs of both runner classes, optionally with injected
faults (abort at an arbitrary library line, host function raising an unmapped exception), executed
from the pristine template state (kit.fresh_celpy: a brand-new set of celpy module objects).  Every
operation's outcome is compared with the same operation performed alone (E;K;P;V, nothing else)
from its own pristine state.
"""

from __future__ import annotations

import re
import sys
from typing import Any, Dict, List, Optional, Tuple

from . import gen, kit
from .sched import LineTracer, SimAbort

PROP = "C05"
HOST_NAMES = ["hf_add1", "hf_boom", "size", "hf_refuse"]


# --------------------------------------------------------------------------------------------
# generation


def generate(seed: int, tier: str = "quick") -> Dict[str, Any]:
    rc = kit.rng(seed, "config")
    rw = kit.rng(seed, "workload")
    rf = kit.rng(seed, "faults")
    cfg = {
        "max_envs": rc.choice([1, 2, 2, 3, 4]),
        "n_ops": rc.choice([3, 4, 5, 6, 6, 8, 8, 10, 12, 16, 24]),
        "fault_class": rc.choice(["none", "none", "none", "faults", "faults"]),
        "runner_mix": rc.choice(["I", "C", "C", "mixed", "mixed", "mixed"]),
        "host_share": rc.choice([0.0, 0.2, 0.5]),
        "pool": rc.choice([0, 2, 4, 8]),  # >0: expressions come from a small per-run pool (repeats)
        "reuse": rc.choice([0.0, 0.3, 0.6]),
        "shape": rc.choice(["random", "random", "random", "matrix"]),
        "features": rc.sample(sorted(gen.FEATURES), rc.choice([0, 0, 1, 2])),
        # override focus: programs that call size() with and without a host function named size
        "size_focus": rc.random() < 0.2,
        "deep_share": rc.choice([0.0, 0.0, 0.0, 0.2]),
        # bindings of other types than declared whose values are equal across types (true/1/1.0)
        "type_mix": rc.random() < 0.25,
    }
    # ... half of those runs with scalar bindings only
    cfg["scalar_only"] = cfg["type_mix"] and rc.random() < 0.5
    fault_kinds: List[str] = []
    if cfg["fault_class"] == "faults":
        fault_kinds = [k for k in ("abort", "boom") if rc.random() < 0.7] or ["abort"]
    cfg["fault_kinds"] = fault_kinds
    abort_rate = rc.choice([0.1, 0.2, 0.35]) if "abort" in fault_kinds else 0.0

    ops: List[Dict[str, Any]] = []
    envs: List[Dict[str, Any]] = []
    asts: List[Dict[str, Any]] = []
    progs: List[Dict[str, Any]] = []
    last_bind: Dict[int, Dict[str, Any]] = {}
    text_pool: Dict[str, List[str]] = {}

    def runner() -> str:
        if cfg["runner_mix"] == "mixed":
            return rw.choice(["I", "C"])
        return cfg["runner_mix"]

    if cfg["shape"] == "matrix":
        # the same few source texts used in every one of 2-4 environments created up front:
        # for each text, compile / build / evaluate in each environment (in a seeded order)
        n_env = rw.choice([2, 2, 3, 4])
        for _ in range(n_env):
            op = {"op": "E", "id": len(envs), "cfg": gen.gen_env(rw, runner())}
            envs.append(op)
            ops.append(op)
        if cfg["runner_mix"] == "mixed" and len({e["cfg"]["runner"] for e in envs}) == 1:
            envs[-1]["cfg"]["runner"] = "I" if envs[0]["cfg"]["runner"] == "C" else "C"
        all_decls = {}
        for e in envs:
            all_decls.update(gen.decl_map(e["cfg"]["decls"]))
        for _ in range(rw.choice([1, 1, 2, 3])):
            text = gen.gen_expr(rw, all_decls or gen.DECL_SETS["flat"], salt=rw.randrange(0, 3),
                                size_focus=cfg["size_focus"], deep_share=cfg["deep_share"],
                                features=cfg["features"])
            order = list(range(n_env))
            rw.shuffle(order)
            for ei in order:
                k = {"op": "K", "id": len(asts), "env": ei, "text": text, "host": []}
                asts.append({"id": k["id"], "env": ei, "host": [], "progd": True, "valid": True})
                p_op = {"op": "P", "id": len(progs), "ast": k["id"], "env": ei, "functions": None}
                progs.append({"id": p_op["id"], "env": ei})
                ops += [k, p_op]
                decls = gen.decl_map(envs[ei]["cfg"]["decls"])
                for _ in range(rw.choice([1, 1, 2])):
                    ops.append({"op": "V", "prog": p_op["id"],
                                "bindings": gen.gen_bindings(rw, decls, salt=rw.randrange(0, 4),
                                                             missing_share=rw.choice([0.0, 0.15, 0.3]),
                                                             type_mix=cfg["type_mix"], scalar_only=cfg["scalar_only"])})
        if abort_rate:
            for op in ops:
                if rf.random() < abort_rate / 2:
                    op["abort"] = int(round(2 ** rf.uniform(0, 11.5)))
        return {"prop": PROP, "seed": seed, "cfg": cfg, "ops": ops}

    while len(ops) < cfg["n_ops"]:
        w_e = 6 if not envs else (1.0 if len(envs) < cfg["max_envs"] else 0.0)
        unprog = [a for a in asts if not a["progd"] and a["valid"]]
        w_k = 0 if not envs else (3.0 if not unprog else 0.7)
        w_p = 0 if not asts else (4.0 if unprog else 0.5)
        w_v = 0 if not progs else 6.0
        kind = rw.choices(["E", "K", "P", "V"], [w_e, w_k, w_p, w_v])[0]
        op: Dict[str, Any]
        if kind == "E":
            ecfg = gen.gen_env(rw, runner())
            op = {"op": "E", "id": len(envs), "cfg": ecfg}
            envs.append(op)
        elif kind == "K":
            e = rw.choice(envs)
            host = []
            if cfg["size_focus"]:
                host = ["size"] if rw.random() < 0.5 else []
            elif rw.random() < cfg["host_share"]:
                host = sorted(rw.sample(HOST_NAMES, rw.randrange(1, 3)))
                if "boom" not in fault_kinds and "hf_boom" in host and rw.random() < 0.7:
                    host.remove("hf_boom")
            decls = gen.decl_map(e["cfg"]["decls"])
            pool_key = ",".join(host)
            if cfg["pool"] and text_pool.get(pool_key) and (
                    len(text_pool[pool_key]) >= cfg["pool"] or rw.random() < cfg["reuse"]):
                # the same source text again, possibly in another environment / runner class
                text = rw.choice(text_pool[pool_key])
            else:
                callable_hosts = [h for h in host if h != "size"]
                text = gen.gen_expr(rw, decls, salt=rw.randrange(0, 3),
                                    host=callable_hosts,
                                    size_focus=cfg["size_focus"],
                                    deep_share=cfg["deep_share"],
                                    # an expression compiled for host functions should call them
                                    features=cfg["features"] + (["host"] if callable_hosts else []))
                text_pool.setdefault(pool_key, []).append(text)
            op = {"op": "K", "id": len(asts), "env": e["id"], "text": text, "host": host}
            asts.append({"id": op["id"], "env": e["id"], "host": host, "progd": False,
                         "valid": text not in gen.INVALID_TEXTS})
        elif kind == "P":
            a = rw.choice(unprog) if unprog and rw.random() < 0.85 else rw.choice(asts)
            fspec = None
            if a["host"] and rw.random() < (0.5 if a["progd"] else 0.85):
                # (a second program from the same AST often differs in the functions it binds)
                fspec = {"style": rw.choice(["dict", "list"]), "names": a["host"],
                         "shared": rw.random() < 0.4}
            elif rw.random() < 0.05:
                fspec = {"style": rw.choice(["dict", "list"]), "names": ["size"]}
            op = {"op": "P", "id": len(progs), "ast": a["id"], "env": a["env"], "functions": fspec}
            a["progd"] = True
            progs.append({"id": op["id"], "env": a["env"]})
        else:
            p = rw.choice(progs[-3:]) if rw.random() < 0.7 else rw.choice(progs)
            decls = gen.decl_map(envs[p["env"]]["cfg"]["decls"])
            if p["id"] in last_bind and rw.random() < 0.2:
                b = last_bind[p["id"]]
            elif cfg["type_mix"] and p["id"] in last_bind and rw.random() < 0.5:
                # the previous bindings of this program again, equal but of other types
                b = gen.equal_variant(rw, last_bind[p["id"]])
            else:
                b = gen.gen_bindings(rw, decls, salt=rw.randrange(0, 4),
                                     missing_share=rw.choice([0.0, 0.15, 0.3, 0.5]),
                                     type_mix=cfg["type_mix"], scalar_only=cfg["scalar_only"])
            last_bind[p["id"]] = b
            op = {"op": "V", "prog": p["id"], "bindings": b}
        if abort_rate and rf.random() < abort_rate:
            # log-uniform over the typical step counts of an operation
            op["abort"] = int(round(2 ** rf.uniform(0, 11.5)))
        ops.append(op)
    return {"prop": PROP, "seed": seed, "cfg": cfg, "ops": ops}


# --------------------------------------------------------------------------------------------
# execution of an operation list in the current (child) process

_SCRATCH = re.compile(r"^(ex_\d+\w*|CEL|base_activation)$")


def _container_shape(nc: Any, depth: int = 0) -> Any:
    out = []
    if depth > 6:
        return "..."
    for k in sorted(nc.keys()):
        ref = nc[k]
        sub = _container_shape(ref.container, depth + 1) if ref.container is not None else None
        out.append([k, bool(ref._value_set), sub])
    return out


def _state_fp(progs: Dict[int, Any]) -> str:
    import celpy
    import celpy.evaluation as ev

    parser = celpy.CELParser.CEL_PARSER
    tree_cls = None
    if parser is not None:
        tree_cls = getattr(getattr(parser, "options", None), "tree_class", type(None)).__name__
    scratch = sorted(n for n in vars(ev) if _SCRATCH.match(n))
    shapes = []
    for pid in sorted(progs):
        p = progs[pid]
        tp = getattr(p, "tp", None)
        if tp is not None:
            try:
                shapes.append([pid, _container_shape(tp.base_activation.identifiers)])
            except Exception as ex:  # noqa: BLE001
                shapes.append([pid, f"?{type(ex).__name__}"])
    return kit.digest([tree_cls, scratch, shapes])


def _bind_snapshot(b: Dict[str, Any]) -> Any:
    return [[k, kit.canon(v), id(v)] for k, v in b.items()]


def exec_ops(ops: List[Dict[str, Any]]) -> Dict[str, Any]:
    """Execute the operation list in this process; return per-operation records."""
    celpy = kit.fresh_celpy()
    import celpy.evaluation as ev

    from . import hostfuncs

    base_snapshot = {k: id(v) for k, v in ev.base_functions.items()}
    envs: Dict[int, Any] = {}
    asts: Dict[int, Any] = {}
    progs: Dict[int, Any] = {}
    records: List[Dict[str, Any]] = []
    fmaps: List[Tuple[Dict[str, Any], Dict[str, int]]] = []  # the caller's function mappings
    for op in ops:
        kind = op["op"]
        rec: Dict[str, Any] = {"op": kind}
        bind = None
        if kind == "E":
            c = op["cfg"]

            def fn(c: Dict[str, Any] = c) -> Any:
                return celpy.Environment(
                    package=c["package"],
                    annotations=gen.materialise_decls(c["decls"]),
                    runner_class=celpy.CompiledRunner if c["runner"] == "C" else celpy.InterpretedRunner,
                )
        elif kind == "K":
            env = envs.get(op["env"])
            if env is None:
                rec["skipped"] = True
                records.append(rec)
                continue

            def fn(env: Any = env, text: str = op["text"]) -> Any:
                return env.compile(text)
        elif kind == "P":
            env = envs.get(op["env"])
            ast = asts.get(op["ast"])
            if env is None or ast is None:
                rec["skipped"] = True
                records.append(rec)
                continue
            functions = hostfuncs.materialise(op["functions"])
            if isinstance(functions, dict) and not any(functions is m for m, _ in fmaps):
                fmaps.append((functions, {k: id(v) for k, v in functions.items()}))

            def fn(env: Any = env, ast: Any = ast, functions: Any = functions) -> Any:
                return env.program(ast, functions=functions)
        else:
            prog = progs.get(op["prog"])
            if prog is None:
                rec["skipped"] = True
                records.append(rec)
                continue
            bind = gen.materialise_bindings(op["bindings"])
            before = _bind_snapshot(bind)

            def fn(prog: Any = prog, bind: Any = bind) -> Any:
                return prog.evaluate(bind)

        tracer = LineTracer(abort_at=op.get("abort"))
        fp: Optional[List[Any]] = None
        val: Any = None
        try:
            with tracer:
                fp, val = kit.outcome(fn, value=(kind == "V"), detail=True)
        except SimAbort:
            rec["aborted"] = tracer.fired_site
        rec["steps"] = tracer.steps
        if fp is not None:
            if kind == "V":
                rec["fp"] = fp
            elif fp[0] == "value":
                # E/K/P: only success matters (the class of tree / runner is an internal detail)
                rec["fp"] = ["value"]
            else:
                rec["fp"] = fp
            if fp[0] == "value":
                if kind == "E":
                    envs[op["id"]] = val
                elif kind == "K":
                    asts[op["id"]] = val
                elif kind == "P":
                    progs[op["id"]] = val
                    tp = getattr(val, "tp", None)
                    if tp is not None:
                        rec["aux"] = kit.digest(tp.source_text)
        if kind == "V" and bind is not None:
            after = _bind_snapshot(bind)
            if after != before:
                rec["o2"] = {"before": [b[:2] for b in before], "after": [a[:2] for a in after],
                             "identity_only": [b[:2] for b in before] == [a[:2] for a in after]}
        now = {k: id(v) for k, v in ev.base_functions.items()}
        if now != base_snapshot:
            leaked = kit.host_leaks(ev.base_functions)
            if leaked:
                rec["i1"] = leaked[:8]
        for m, snap in fmaps:
            now_m = {k: id(v) for k, v in m.items()}
            if now_m != snap:
                rec["fmap"] = sorted(set(now_m.items()) ^ set(snap.items()))[:4]
                snap.clear()
                snap.update(now_m)  # report a modification once, at the operation that made it
        rec["state"] = _state_fp(progs)
        records.append(rec)
    return {"records": records}


# --------------------------------------------------------------------------------------------
# the run: history + alone references + oracle

_REF_CACHE: Dict[str, Dict[str, Any]] = {}
REF_RUNS = 0


def _strip(op: Dict[str, Any]) -> Dict[str, Any]:
    return {k: v for k, v in op.items() if k != "abort"}


def _alone_ops(trace_ops: List[Dict[str, Any]], idx: int) -> List[Dict[str, Any]]:
    """The dependency chain E;K;P;V of operation idx, renumbered, without faults."""
    by = {(o["op"], o.get("id")): o for o in trace_ops if o["op"] != "V"}
    op = trace_ops[idx]
    chain: List[Dict[str, Any]] = []
    if op["op"] == "V":
        p = by[("P", op["prog"])]
        k = by[("K", p["ast"])]
        e = by[("E", p["env"])]
        chain = [e, k, p, op]
    elif op["op"] == "P":
        k = by[("K", op["ast"])]
        e = by[("E", op["env"])]
        chain = [e, k, op]
    elif op["op"] == "K":
        chain = [by[("E", op["env"])], op]
    else:
        chain = [op]
    out = []
    for o in chain:
        o = _strip(o)
        if o["op"] == "E":
            o["id"] = 0
        elif o["op"] == "K":
            o["id"] = 0
            o["env"] = 0
        elif o["op"] == "P":
            o["id"] = 0
            o["ast"] = 0
            o["env"] = 0
        else:
            o["prog"] = 0
        out.append(o)
    return out


def _reference(chain: List[Dict[str, Any]], timeout: float) -> Dict[str, Any]:
    """Fingerprint of the last operation of `chain` executed alone in a fresh child (cached, and
    every prefix of an executed chain is cached too)."""
    global REF_RUNS
    key = kit.digest(chain)
    hit = _REF_CACHE.get(key)
    if hit is not None:
        return hit
    res = kit.in_fresh_thread(exec_ops, chain)
    REF_RUNS += 1
    recs = res["records"]
    for n in range(1, len(chain) + 1):
        _REF_CACHE.setdefault(kit.digest(chain[:n]), recs[n - 1])
    if len(_REF_CACHE) > 50000:
        _REF_CACHE.clear()
    return recs[len(chain) - 1]


def execute(trace: Dict[str, Any], timeout: float = 60.0) -> Dict[str, Any]:
    """Run one simulated history and decide the oracles.  Called in a template process."""
    ops = trace["ops"]
    hist = kit.in_fresh_thread(exec_ops, ops)["records"]
    violations: List[Dict[str, Any]] = []
    stats: Dict[str, int] = {}
    states: List[str] = []
    transitions: List[str] = []
    prev_state = "init"
    n_v = 0
    after_other = False
    last_obj: Optional[Tuple[str, Any]] = None
    fault_seen = False
    nontrivial_v = 0
    steps = 0
    order = sorted(range(len(ops)), key=lambda i: -"EKPV".index(ops[i]["op"]))
    refs: Dict[int, Dict[str, Any]] = {}
    for i in order:
        rec = hist[i]
        if rec.get("skipped") or "aborted" in rec:
            continue
        refs[i] = _reference(_alone_ops(ops, i), timeout)
    for i, (op, rec) in enumerate(zip(ops, hist)):
        kind = op["op"]
        stats[f"op_{kind}"] = stats.get(f"op_{kind}", 0) + 1
        if rec.get("skipped"):
            stats["op_skipped"] = stats.get("op_skipped", 0) + 1
            continue
        steps += rec.get("steps", 0)
        if "state" in rec:
            states.append(rec["state"])
            transitions.append(kit.digest([prev_state, kind, rec["state"]]))
            prev_state = rec["state"]
        obj = ("prog", op.get("prog")) if kind == "V" else ("env", op.get("env", op.get("id")))
        if "aborted" in rec:
            stats["fault_abort_fired"] = stats.get("fault_abort_fired", 0) + 1
            stats[f"fault_abort_in_{kind}"] = stats.get(f"fault_abort_in_{kind}", 0) + 1
            fault_seen = True
            last_obj = ("fault", None)
            continue
        if "abort" in op:
            stats["fault_abort_not_reached"] = stats.get("fault_abort_not_reached", 0) + 1
        fp = rec["fp"]
        if kind == "V":
            n_v += 1
            if fp[0] == "CELEvalError":
                stats["fault_eval_error"] = stats.get("fault_eval_error", 0) + 1
            elif fp[0] == "exception":
                stats["fault_exception_escaped"] = stats.get("fault_exception_escaped", 0) + 1
                if fp[1] == "RuntimeError":
                    stats["fault_host_boom_fired"] = stats.get("fault_host_boom_fired", 0) + 1
            if last_obj is not None and last_obj != obj:
                nontrivial_v += 1
        elif kind == "K" and fp[0] != "value":
            stats["fault_parse_error"] = stats.get("fault_parse_error", 0) + 1
        elif kind == "P" and fp[0] != "value":
            stats["fault_program_error"] = stats.get("fault_program_error", 0) + 1
        if fp[0] != "value":
            fault_seen = True
        last_obj = obj
        ref = refs[i]
        if not kit.same_outcome(ref.get("fp"), fp):
            violations.append({
                "oracle": "O1-alone",
                "op_index": i,
                "op": kind,
                "runner": _runner_of(ops, i),
                "history": fp,
                "alone": ref.get("fp"),
                "after_fault": fault_seen,
                "sig": {"oracle": "O1-alone", "op": kind, "history": fp[:2],
                        "alone": (ref.get("fp") or [None, None])[:2]},
            })
        if "o2" in rec:
            violations.append({"oracle": "O2-bindings-modified", "op_index": i, "op": kind,
                               "runner": _runner_of(ops, i), "detail": rec["o2"],
                               "sig": {"oracle": "O2-bindings-modified", "op": kind}})
        if "fmap" in rec:
            violations.append({"oracle": "O2f-functions-mapping-modified", "op_index": i, "op": kind,
                               "runner": _runner_of(ops, i), "detail": [k for k, _ in rec["fmap"]],
                               "sig": {"oracle": "O2f-functions-mapping-modified", "op": kind}})
        if "i1" in rec:
            violations.append({"oracle": "I1-host-function-in-base-functions", "op_index": i, "op": kind,
                               "runner": _runner_of(ops, i), "detail": rec["i1"],
                               "sig": {"oracle": "I1-host-function-in-base-functions", "op": kind}})
    # O3: repeated V with equal bindings on one program -> equal fingerprints
    seen: Dict[str, Tuple[int, Any]] = {}
    for i, (op, rec) in enumerate(zip(ops, hist)):
        if op["op"] != "V" or "fp" not in rec:
            continue
        key = kit.digest([op["prog"], op["bindings"]])
        if key in seen:
            stats["probe_repeat_same_bindings"] = stats.get("probe_repeat_same_bindings", 0) + 1
            if not kit.same_outcome(seen[key][1], rec["fp"]):
                violations.append({"oracle": "O3-repeat", "op_index": i, "op": "V",
                                   "runner": _runner_of(ops, i), "first_index": seen[key][0],
                                   "first": seen[key][1], "history": rec["fp"],
                                   "sig": {"oracle": "O3-repeat", "op": "V"}})
        else:
            seen[key] = (i, rec["fp"])
    stats["steps"] = steps
    stats["evaluations_V"] = n_v
    stats["class_" + trace["cfg"]["fault_class"]] = 1
    runners = sorted({o["cfg"]["runner"] for o in ops if o["op"] == "E"})
    if len(runners) == 2:
        stats["probe_both_runner_classes"] = 1
    if any(o["op"] == "V" and not o["bindings"] for o in ops):
        stats["probe_empty_bindings"] = 1
    if any(o["op"] == "P" and o["functions"] for o in ops):
        stats["probe_host_functions"] = 1
    nontrivial = n_v >= 2 and (nontrivial_v >= 1)
    return {
        "digest": kit.digest([[r.get("fp"), r.get("aborted"), r.get("state")] for r in hist]),
        "violations": violations,
        "stats": stats,
        "nontrivial": nontrivial,
        "states": sorted(set(states)),
        "transitions": sorted(set(transitions)),
        "log": [{k: v for k, v in r.items() if k != "state"} for r in hist],
    }


def _runner_of(ops: List[Dict[str, Any]], i: int) -> Optional[str]:
    op = ops[i]
    envs = {o["id"]: o for o in ops if o["op"] == "E"}
    progs = {o["id"]: o for o in ops if o["op"] == "P"}
    try:
        if op["op"] == "E":
            return op["cfg"]["runner"]
        if op["op"] == "V":
            return envs[progs[op["prog"]]["env"]]["cfg"]["runner"]
        return envs[op["env"]]["cfg"]["runner"]
    except KeyError:
        return None


# --------------------------------------------------------------------------------------------
# minimisation


def _closure(ops: List[Dict[str, Any]]) -> List[Dict[str, Any]]:
    """Drop operations whose dependencies are gone."""
    envs = set()
    asts = set()
    progs = set()
    out = []
    for o in ops:
        k = o["op"]
        if k == "E":
            envs.add(o["id"])
        elif k == "K":
            if o["env"] not in envs:
                continue
            asts.add(o["id"])
        elif k == "P":
            if o["env"] not in envs or o["ast"] not in asts:
                continue
            progs.add(o["id"])
        else:
            if o["prog"] not in progs:
                continue
        out.append(o)
    return out


def same_failure(v: Dict[str, Any], sig: Dict[str, Any]) -> bool:
    return v["sig"] == sig


def shrink(trace: Dict[str, Any], sig: Dict[str, Any], budget: int = 120) -> Dict[str, Any]:
    """ddmin over operations (dependency-closed), then over faults, then over bindings."""

    def fails(ops: List[Dict[str, Any]]) -> bool:
        ops = _closure(ops)
        if not ops or kit.expired():
            return False
        try:
            res = execute(dict(trace, ops=ops))
        except kit.HarnessError:
            return False
        return any(same_failure(v, sig) for v in res["violations"])

    ops = kit.ddmin(trace["ops"], fails, budget=budget)
    ops = _closure(ops)
    # faults
    for i, o in enumerate(list(ops)):
        if "abort" in o:
            cand = [dict(x) for x in ops]
            del cand[i]["abort"]
            if fails(cand):
                ops = cand
    # bindings: drop keys one at a time
    for i, o in enumerate(list(ops)):
        if o["op"] != "V":
            continue
        for key in list(o["bindings"]):
            cand = [dict(x) for x in ops]
            nb = dict(cand[i]["bindings"])
            nb.pop(key, None)
            cand[i]["bindings"] = nb
            if fails(cand):
                ops = cand
    return dict(trace, ops=ops, minimised=True)


RULE = ("a case is one seeded API history (E/K/P/V over <=4 environments of both runner classes, "
        "optionally with abort / host-exception faults) executed in a forked child of the pristine "
        "template and compared, operation by operation, with the same operation alone in its own "
        "fresh child; non-trivial = at least two evaluations of which at least one directly follows "
        "an operation on a different environment/program or a fault; distinct = distinct digests of "
        "(outcome fingerprints, abort sites, state fingerprints) over the whole history")

ASSUMPTIONS = [
    "the alone reference is the implementation itself in a fresh process: this decides independence "
    "from history, not semantic correctness",
    "abort points are Python source lines of celpy and of transpiled <string> code; lark, re2, "
    "pendulum and CPython internals are atomic",
    "host callables in programs are scripted stubs (sim/hostfuncs.py); everything else is real code, "
    "except that identical Lark parsers are constructed once per process and then loaded from "
    "lark's own serialisation (checked against the real constructor by the determinism sample)",
]
