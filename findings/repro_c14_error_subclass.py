"""C14 finding (fixed): in the CompiledRunner a host function raising a *subclass* of ValueError /
TypeError (or a ValueError without arguments) was not absorbed by || && ?: -- result() looked the
message up by the exact exception class and failed with KeyError / IndexError inside its handler."""
import json
import sys

import celpy


def parse(text):
    return json.loads(text)  # raises json.JSONDecodeError, a ValueError


def bare(x):
    raise ValueError()


bad = 0
for runner in (celpy.InterpretedRunner, celpy.CompiledRunner):
    for text, fns in (("parse('{') == 1 || true", {"parse": parse}), ("bare(1) == 1 || true", {"bare": bare})):
        env = celpy.Environment(runner_class=runner)
        try:
            got = env.program(env.compile(text), functions=fns).evaluate({})
        except Exception as ex:  # noqa
            got = type(ex).__name__
        ok = got is True or got == True  # noqa
        bad += not ok
        print(f"{runner.__name__:18s} {text:28s} -> {got!s:14s} {'ok' if ok else 'WRONG'}")
sys.exit(1 if bad else 0)
