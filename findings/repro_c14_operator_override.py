"""Commit 6: func_name() is also used for operators, so an application override of a
short-circuit operator is wrapped by function_call() and no longer sees error operands."""
import celpy
from celpy import celtypes
def my_or(l, r):   return celtypes.logical_or(l, r)
def my_and(l, r):  return celtypes.logical_and(l, r)
def my_cond(c, l, r): return celtypes.logical_condition(c, l, r)
def my_add(l, r): return celtypes.IntType(l + r + 1000)
funcs = {"_||_": my_or, "_&&_": my_and, "_?_:_": my_cond, "_+_": my_add}
for src in ["1/0 > 0 || true", "true || 1/0 > 0", "1/0 > 0 && false", "false && 1/0 > 0",
            "true ? 1 : 1/0", "false ? 1/0 : 2", "1 + 2"]:
    row = []
    for rc in (celpy.InterpretedRunner, celpy.CompiledRunner):
        for fs in (None, funcs):
            env = celpy.Environment(runner_class=rc)
            try:
                row.append(repr(env.program(env.compile(src), functions=fs).evaluate({})))
            except Exception as ex:
                row.append(f"{type(ex).__name__}{ex.args[:1]!r}"[:60])
    print(f"{src:18} interp: builtin={row[0]:16} override={row[1]:16} | compiled: builtin={row[2]:16} override={row[3]}")
