"""C14 finding (fixed): with the CompiledRunner a call to a name bound to no function inside a
filter() or exists_one() body was taken as a (truthy) value instead of an evaluation error."""
import sys

import celpy

bad = 0
for runner in (celpy.InterpretedRunner, celpy.CompiledRunner):
    for text in ("[1, 2].filter(v, nofn(v))", "[1, 2].exists_one(v, nofn(v))",
                 "[1, 2].exists_one(v, true ? 1/0 > 0 : true)"):
        env = celpy.Environment(runner_class=runner)
        try:
            got = repr(env.program(env.compile(text)).evaluate({}))[:40]
        except celpy.CELEvalError:
            got = "CELEvalError"
        ok = got == "CELEvalError"
        bad += not ok
        print(f"{runner.__name__:18s} {text:46s} -> {got:30s} {'ok' if ok else 'WRONG'}")
sys.exit(1 if bad else 0)
