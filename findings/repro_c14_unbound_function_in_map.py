"""C14 finding (fixed): with the CompiledRunner, calling a name bound to no function inside a
map() body produced a *list of error objects* as the value of the expression."""
import sys

import celpy

bad = 0
for runner in (celpy.InterpretedRunner, celpy.CompiledRunner):
    for text in ("[1, 2].map(v, nofn(v))", "[1, 2].map(v, nofn(v)).all(w, true)"):
        env = celpy.Environment(runner_class=runner)
        try:
            got = repr(env.program(env.compile(text)).evaluate({}))[:50]
        except celpy.CELEvalError:
            got = "CELEvalError"
        ok = got == "CELEvalError"
        bad += not ok
        print(f"{runner.__name__:18s} {text:38s} -> {got:52s} {'ok' if ok else 'WRONG'}")
sys.exit(1 if bad else 0)
