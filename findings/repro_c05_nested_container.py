import celpy
from celpy import celtypes
e = celpy.Environment(annotations={"a.b": celtypes.IntType, "c": celtypes.IntType}, runner_class=celpy.CompiledRunner)
p = e.program(e.compile("a.b + c"))
print(p.evaluate({"a.b": celtypes.IntType(1), "c": celtypes.IntType(10)}))
try:
    print("second:", p.evaluate({"c": celtypes.IntType(10)}))
except celpy.CELEvalError as ex:
    print("second: CELEvalError")
