"""C14 finding (fixed): CompiledRunner reached host functions through ``module.qualname`` text.

A def in a host module, a nested def, a lambda and a callable instance must all be callable from
both runner classes.  Prints one line per (runner, callable kind).
"""
import sys
import types

import celpy
from celpy import celtypes

hostmod = types.ModuleType("hostmod_for_repro")
exec(
    "from celpy import celtypes\n"
    "def f(a, b):\n"
    "    return celtypes.IntType(1000 + a + b)\n",
    hostmod.__dict__,
)
sys.modules["hostmod_for_repro"] = hostmod


def make_nested():
    def f(a, b):
        return celtypes.IntType(2000 + a + b)

    return f


class Callable_:
    def __call__(self, a, b):
        return celtypes.IntType(3000 + a + b)


kinds = {
    "module_def": (hostmod.f, 1003),
    "nested_def": (make_nested(), 2003),
    "lambda": (lambda a, b: celtypes.IntType(4000 + a + b), 4003),
    "instance": (Callable_(), 3003),
}
bad = 0
for runner in (celpy.InterpretedRunner, celpy.CompiledRunner):
    for kind, (fn, expected) in kinds.items():
        for text in ("f(1, 2)", "1.f(2)".replace("1.f", "(1).f")):
            try:
                env = celpy.Environment(runner_class=runner)
                got = env.program(env.compile(text), functions={"f": fn}).evaluate({})
            except Exception as ex:  # noqa
                got = f"{type(ex).__name__}"
            ok = got == expected
            bad += not ok
            print(f"{runner.__name__:18s} {kind:11s} {text:9s} -> {got!s:20s} {'ok' if ok else 'WRONG'}")
sys.exit(1 if bad else 0)
