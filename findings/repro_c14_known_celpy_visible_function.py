"""C14 KNOWN FINDING (not repaired): with the CompiledRunner a supplied function that celpy can
spell as module.qualname -- here celpy.c7nlib.present, as applications pass in
celpy.c7nlib.FUNCTIONS -- is applied to an error *value*; the InterpretedRunner reports the error.
Not repaired: wrapping the call would change the transpiled text that tests/test_transpilation.py
pins for a supplied function ('test_transpilation.no_arg_function()')."""
import sys

import celpy
import celpy.c7nlib

bad = 0
for runner in (celpy.InterpretedRunner, celpy.CompiledRunner):
    for text in ("present(true ? 1/0 : 'a')", "present(nofn(1))"):
        env = celpy.Environment(runner_class=runner)
        try:
            got = repr(env.program(env.compile(text), functions={"present": celpy.c7nlib.present}).evaluate({}))
        except celpy.CELEvalError:
            got = "CELEvalError"
        ok = got == "CELEvalError"
        bad += not ok
        print(f"{runner.__name__:18s} {text:28s} -> {got:16s} {'ok' if ok else 'WRONG'}")
sys.exit(1 if bad else 0)
