import celpy
e1 = celpy.Environment()
e2 = celpy.Environment(runner_class=celpy.CompiledRunner)
print(e2.program(e2.compile("1 + 2")).evaluate({}))
print(e1.program(e1.compile("1 + 2")).evaluate({}))
e3 = celpy.Environment()
print(type(e3.compile("1")), type(e2.compile("1")), type(e1.compile("1")))
