"""C14 finding (fixed): calling a name bound to no function with an empty list (or map) literal among
several arguments, next to another failing operand of && / ||, made evaluate() raise a raw
IndexError('pop from empty list') instead of an evaluation error: the operator's TypeError message
formats repr(CELEvalError), which dumps the error's AST, and DumpAST.list_lit()/map_lit() consumed the
text of the preceding argument for an empty literal."""
import sys

import celpy

bad = 0
for runner in (celpy.InterpretedRunner, celpy.CompiledRunner):
    for text in ("(4 == [nofn(1, [])][0]) && (0 == (1 / 0))", "(4 == [nofn(1, {})][0]) || (0 == (1 / 0))"):
        env = celpy.Environment(runner_class=runner)
        try:
            got = repr(env.program(env.compile(text)).evaluate({}))
        except celpy.CELEvalError:
            got = "CELEvalError"
        except Exception as ex:  # noqa
            got = f"RAW {type(ex).__name__}"
        ok = got == "CELEvalError"
        bad += not ok
        print(f"{runner.__name__:18s} {text:30s} -> {got:18s} {'ok' if ok else 'WRONG'}")
sys.exit(1 if bad else 0)
