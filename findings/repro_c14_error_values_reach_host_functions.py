"""C14 finding (fixed): in the CompiledRunner an evaluation error could reach a host function as an
argument *value*, and a CELEvalError returned by a host function was passed on to the enclosing
host call -- the error disappeared and a value was returned."""
import sys

import celpy
from celpy import celtypes

seen = []


def f(x):
    seen.append(x)
    return celtypes.IntType(5)


def refuse(x):
    return celpy.CELEvalError("refused")


bad = 0
for runner in (celpy.InterpretedRunner, celpy.CompiledRunner):
    for text in ("f(true ? 1/0 : 2)", "(true ? 1/0 : 2).f()", "f(refuse(1))", "f(refuse(1)) == 5 || true"):
        seen.clear()
        env = celpy.Environment(runner_class=runner)
        try:
            got = env.program(env.compile(text), functions={"f": f, "refuse": refuse}).evaluate({})
        except celpy.CELEvalError:
            got = "CELEvalError"
        want = True if text.endswith("|| true") else "CELEvalError"
        ok = (str(got) == str(want)) and not seen
        bad += not ok
        print(f"{runner.__name__:18s} {text:28s} -> {got!s:14s} f saw {seen!r:40.40s} {'ok' if ok else 'WRONG'}")
sys.exit(1 if bad else 0)
