"""C20 finding (fixed): an NDJSON line holding valid JSON that is not an object (5, null, "x") made
name resolution raise TypeError('... not a container'); main() died with a traceback, so every
later document was lost -- the output for line k+1 depended on line k."""
import io
import sys

import celpy.__main__ as cli


def run(argv, text):
    out = io.StringIO()
    old = sys.stdin, sys.stdout
    sys.stdin, sys.stdout = io.StringIO(text), out
    try:
        try:
            status = cli.main(argv)
        except Exception as ex:  # noqa
            status = f"crash: {type(ex).__name__}"
    finally:
        sys.stdin, sys.stdout = old
    return status, out.getvalue()


bad = 0
for argv, stdin, want in (
    ([".a"], '{"a": 1}\n5\n{"a": 2}\n', (0, "1\nnull\n2\n")),
    (["--arg", "x:int=7", "x"], '{"a": 1}\nnull\n{"a": 2}\n', (0, "7\n7\n7\n")),
):
    got = run(argv, stdin)
    ok = got == want
    bad += not ok
    print(argv, repr(stdin), "->", got, "ok" if ok else f"WRONG (want {want})")
sys.exit(1 if bad else 0)
