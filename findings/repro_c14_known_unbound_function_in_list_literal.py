"""C14 KNOWN FINDING (not repaired): with the CompiledRunner a call to a name bound to no function,
written as an element of a list literal, becomes an error *object inside the list* instead of an
evaluation error of the expression.  Not repaired because the two places where it could be
repaired are pinned by the existing tests: tests/test_transpilation.py fixes the transpiled text
"CELEvalError('unbound function', KeyError, (name,))(args)" and tests/test_evaluation.py asserts
`ex() == ex` for CELEvalError.__call__."""
import sys

import celpy

bad = 0
for runner in (celpy.InterpretedRunner, celpy.CompiledRunner):
    for text in ("[5, 10, nofn()][1]", "[nofn(1)].all(w, false)", "size([nofn(1)])"):
        env = celpy.Environment(runner_class=runner)
        try:
            got = repr(env.program(env.compile(text)).evaluate({}))[:40]
        except celpy.CELEvalError:
            got = "CELEvalError"
        ok = got == "CELEvalError"
        bad += not ok
        print(f"{runner.__name__:18s} {text:26s} -> {got:42s} {'ok' if ok else 'WRONG'}")
sys.exit(1 if bad else 0)
