"""C16 finding (fixed): two CompiledRunner evaluations in two threads shared scratch names.

Thread A is paused (via sys.settrace) at the first line of its transpiled code, i.e. after
Transpiler.evaluate stored ``base_activation``; thread B then evaluates its own program completely;
A resumes.  Alone, A returns 101.  Prints the value A returned.
"""
import sys
import threading

import celpy
from celpy import celtypes

a_paused = threading.Event()
b_done = threading.Event()
out = {}


def worker_a():
    env = celpy.Environment(annotations={"x": celtypes.IntType}, runner_class=celpy.CompiledRunner)
    prgm = env.program(env.compile("x + 100"))
    fired = []

    def tracer(frame, event, arg):
        if frame.f_code.co_filename == "<string>" and not fired:
            fired.append(1)
            a_paused.set()
            b_done.wait(10)
        return tracer

    sys.settrace(tracer)
    try:
        out["a"] = prgm.evaluate({"x": celtypes.IntType(1)})
    finally:
        sys.settrace(None)


def worker_b():
    env = celpy.Environment(annotations={"x": celtypes.IntType}, runner_class=celpy.CompiledRunner)
    prgm = env.program(env.compile("x + 200"))
    a_paused.wait(10)
    out["b"] = prgm.evaluate({"x": celtypes.IntType(2)})
    b_done.set()


ta = threading.Thread(target=worker_a)
tb = threading.Thread(target=worker_b)
ta.start(); tb.start(); ta.join(); tb.join()
print("A:", out["a"], "B:", out["b"])
sys.exit(0 if out["a"] == 101 and out["b"] == 202 else 1)
