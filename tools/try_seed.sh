#!/bin/sh
# usage: tools/try_seed.sh <patch.diff> <PROP> [extra check args]  -- applies the patch to a scratch
# worktree of /repo HEAD under /tmp, runs the check against it, removes the worktree.
set -u
patch=$(readlink -f "$1"); prop=$2; shift 2
wt=/tmp/try_$$
git -C /repo worktree add --detach $wt HEAD -q || exit 2
git -C $wt apply "$patch" 2>/dev/null || git -C $wt apply -3 "$patch" || { git -C /repo worktree remove --force $wt; exit 2; }
VERIF_REPLAY_DIR=/tmp/replays_try /verif/check $prop --src $wt/src "$@"
rc=$?
git -C /repo worktree remove --force $wt
exit $rc
