#!/venv/bin/python
"""Print the markdown table of seeded changes (section 8 of DESIGN.md) from seeded/*/meta.json."""
import glob
import json

rows = []
for f in sorted(glob.glob("/verif/seeded/*/meta.json")):
    m = json.load(open(f))
    r = m.get("result", {})
    title = (m.get("title") or "").replace("|", "/")
    if len(title) > 120:
        title = title[:117] + "..."
    needs = (m.get("needs_to_manifest") or "").replace("|", "/").replace("\n", " ")
    if len(needs) > 160:
        needs = needs[:157] + "..."
    classes = "; ".join(sorted({c.split("): ")[-1] for c in r.get("classes", [])}))[:200].replace("|", "/")
    rows.append(f"| `{m['id']}` | {m['property']} | {title} | {needs} | **{r.get('verdict')}** ({r.get('runs')} runs, {r.get('wall_s')} s) |")
print("| id | property | change | needs to manifest | quick check |")
print("|----|----------|--------|-------------------|-------------|")
print("\n".join(rows))
