#!/venv/bin/python
"""Print the markdown tables of seeded changes and negative controls (section 8 of DESIGN.md) from
the meta.json files written by tools/run_seeded.py / tools/run_negative.py."""
import glob
import json


def clip(s, n):
    s = (s or "").replace("|", "/").replace("\n", " ")
    return s if len(s) <= n else s[: n - 3] + "..."


print("| id | change (as described by its author) | needs to manifest | quick check |")
print("|----|--------------------------------------|-------------------|-------------|")
tot = {}
for f in sorted(glob.glob("/verif/seeded/*/meta.json")):
    m = json.load(open(f))
    r = m.get("result", {})
    v = r.get("verdict")
    tot[v] = tot.get(v, 0) + 1
    print(f"| `{m['id']}` | {clip(m.get('title'), 150)} | {clip(m.get('needs_to_manifest'), 170)} | "
          f"**{v}** ({r.get('runs')} runs, {r.get('wall_s')} s) |")
print()
print("Totals:", ", ".join(f"{k}: {v}" for k, v in sorted(tot.items())))
print()
print("| id | behaviour-preserving change | quick check |")
print("|----|-----------------------------|-------------|")
tot = {}
for f in sorted(glob.glob("/verif/negative/*/meta.json")):
    m = json.load(open(f))
    r = m.get("result", {})
    v = r.get("verdict")
    tot[v] = tot.get(v, 0) + 1
    print(f"| `{m['id']}` | {clip(m.get('title'), 170)} | **{v}** ({r.get('runs')} runs; tests: {clip(r.get('tests'), 22)}) |")
print()
print("Totals:", ", ".join(f"{k}: {v}" for k, v in sorted(tot.items())))
