import json
na = {
 "C01":"pure function of the two operands (IntType/UintType/DoubleType operators); no schedule, clock, fault, I/O or history enters it, so deterministic simulation has nothing to decide (DESIGN.md section 5)",
 "C02":"truth table of && || ! ?: and all/exists over {true,false,error} is a pure function of operand outcomes; the 'errors' are values computed inside the expression, not injected faults (DESIGN.md section 5)",
 "C03":"agreement of the two runners on one (program, activation) is a pure differential over inputs; its only state-dependent facets are decided under C05/C16 (DESIGN.md section 5)",
 "C04":"which exception class leaves compile/evaluate is a pure function of text / program and activation; nothing environmental is quantified over (DESIGN.md section 5)",
 "C06":"parse tree and dump/re-parse round trip are pure functions of the source text; LALR tables are immutable after construction (DESIGN.md section 5)",
 "C07":"literal decoding is a per-token pure function (DESIGN.md section 5)",
 "C08":"equality/ordering laws relate pure comparisons of values; no clock or local zone is consulted (DESIGN.md section 5)",
 "C09":"list/map/string/macro results are pure functions of program and inputs (DESIGN.md section 5)",
 "C10":"conversions are pure functions of the source value (DESIGN.md section 5)",
 "C11":"timestamp/duration arithmetic and accessors are pure functions of (instant, duration, zone name); the code never reads the system clock or process time zone, so there is no clock seam to simulate (DESIGN.md section 5)",
 "C12":"name resolution is a pure function of (declarations, package, bindings, reference); its only history-dependent facet (bindings surviving in a shared nested namespace) is decided under C05 (DESIGN.md section 5)",
 "C13":"the CEL class of a result is a pure function of expression and inputs (DESIGN.md section 5)",
 "C15":"json_to_cel and CELJSONEncoder are pure functions of the document (DESIGN.md section 5)",
 "C18":"the policy translator is a set of static pure functions from a filter tree to text; no state, I/O, time or concurrency (DESIGN.md section 5)",
 "C19":"same as C18: table lookups and string construction over one clause (DESIGN.md section 5)",
}
CHECKS = {
 "C05": dict(
   text="Seeded simulation of API histories (create Environment / compile / program / evaluate over up to 4 environments of both runner classes, with abort-at-arbitrary-line and host-exception faults); every operation is compared with the same operation performed alone from a pristine library state. Sampling over seeds, not proof: it decides independence from history on the histories explored.",
   note="Reference = the implementation itself run alone (decides history-independence, not semantic correctness). Isolation between runs is a fresh set of celpy module objects (reload isolation) in fresh threads; identical Lark parsers are constructed once per process and then loaded from lark's own serialisation; both are cross-checked on every run against a fresh interpreter using the real constructor (determinism sample). Abort points are Python lines of celpy and of transpiled code; lark/re2/pendulum are atomic.",
   technique="deterministic simulation: seeded API-history + fault-injection search with alone-run reference oracle, ddmin-minimised replay files",
   ref="3 (C05)"),
 "C14": dict(
   text="The host callable is the one external party the library calls during evaluation; the simulator owns it: every supplied function is an instrumented stub peer that records what it received and returns a scripted value or fires an injected fault (returned CELEvalError, raised ValueError/TypeError incl. subclasses and no-argument forms, unbound name). Seeded histories of 1-4 programs over both runners x list/dict supply x six callable kinds x global/method syntax x overrides of built-ins; oracles: received arguments and call counts against a small reference evaluator, and a metamorphic oracle (host call replaced by an equivalent pure-CEL expression / built-in error on the same runner). Sampling, not proof.",
   note="Host callables are stubs; everything else is real. The absorbing rules of && || ?: and macro semantics over errors are taken as given (C02): differences that also occur without host calls are counted (core_disagreement) but not reported under C14. One recorded finding (known_findings.json) is matched only through a counterfactual re-execution.",
   technique="deterministic simulation of the host-function seam: scripted stub peers with seeded fault injection, call-history oracle against a reference model plus metamorphic substitution oracle, AST-level minimisation",
   ref="3 (C14)"),
 "C17": dict(
   text="Filter-context lifecycle over fault-laden histories: every evaluation runs under a fresh in-process fake Custodian filter F_k (manager, session, clients, resource managers, simulated urlopen) through the three documented routes and both runners; faults: CEL error, helper ValueError, fake filter/client raising an unmapped exception, URLError / timeout / truncated gzip on the simulated network, abort at an arbitrary library line. Invariants per operation: C7N is None before and after, every fake call sees exactly the running operation's context, every value obtained through the filter carries k, fault-free operations after a fault return their reference value. The helper functions (set algebra, CIDR, versions, tags, ARNs) are pure and are only sampled against small independent reference models as the per-operation reference. Sampling, not proof.",
   note="Custodian side and urlopen are fakes; c7nlib, celpy, ipaddress, packaging, fnmatch, zlib are real. Aborts are not injected inside C7NContext.__enter__/__exit__ themselves. Inputs on which the statement is silent are not asserted.",
   technique="deterministic simulation: seeded evaluation histories against an in-process fake Custodian filter and simulated network with fault injection; lifecycle invariants + reference-model oracle; ddmin replay",
   ref="3 (C17)"),
 "C16": dict(
   text="2-4 real threads, each with its own Environment/program/bindings (the documented contract), run under a seeded baton-passing scheduler that pre-empts at every Python line of celpy and of transpiled code (policies: PCT depth<=3, random, hot-site-biased, focus and single-point pre-emption inside functions that a static analysis of the tree finds touching shared state, round-robin; optional abort fault in one thread; cooperative model of Lock/RLock); every outcome must equal the same thread run alone; bounded liveness (<= 50x the alone step count). Sampling of schedules, not enumeration.",
   note="Pre-emption granularity is one source line (sys.monitoring LINE events); C extensions, lark (except in trace_lark runs of the thorough tier) and the stdlib are atomic. The choice of who runs is the only stub. Free-running OS-scheduled stress is deliberately not used (not replayable).",
   technique="deterministic simulation: real threads under a seeded baton-passing scheduler (PCT / random / shared-state-biased / targeted single-pre-emption policies over shared-state-directed workloads), alone-run oracle, schedule ddmin, explicit switch-list replay",
   ref="3 (C16)"),
 "C20": dict(
   text="celpy.__main__.main(argv) runs in-process on simulated standard streams (real TextIOWrapper/BufferedReader over a seeded short-read byte source) with the stream faults of the family applied to NDJSON lines: loss, duplication, reordering, torn line, garbage line, EOF without newline, CRLF, short reads, a line longer than the 8 KiB buffer. Oracles: a reference evaluator over the CLI fragment (-n output/status, -b statuses, syntax-error status and location, per-document value), and the history oracle that the output/status of a stream equal the concatenation/maximum of the CLI's behaviour on each line alone from a pristine state; a sample also goes through a real `python -m celpy` process. Sampling, not proof.",
   note="Only the raw byte source and the output sinks are simulated. Per-line behaviour the statement does not fix (error marker and its status) is taken from the one-line run. Blank lines, undecodable bytes, read errors and a closed stdout are not injected (statement silent).",
   technique="deterministic simulation of the CLI on simulated stdin/stdout with seeded stream-fault injection (loss/dup/reorder/torn/garbage/short reads); per-line alone-run history oracle + reference model; ddmin replay",
   ref="3 (C20)"),
}

def check(pid, c):
    return {
      "property_id": pid,
      "quick_cmd": f"./check {pid} --tier quick",
      "thorough_cmd": f"./check {pid} --tier thorough",
      "evidence_file": f"/verif/evidence/{pid}.json",
      "replay_cmd_template": f"./check {pid} --replay {{path}}",
      "engine": "sim",
      "level_claimed": {"category": "exploration", "text": c["text"], "design_ref": "DESIGN.md section " + c["ref"]},
      "level_note": c["note"],
      "technique": c["technique"],
    }

m = {
 "version": 1,
 "setup_cmd": "/venv/bin/python sim/setup_check.py",
 "hooks": {
   "guard": "CEL_PYTHON_VERIF",
   "enable": "no hook is compiled into /repo: the simulator pre-empts through sys.monitoring line events and injects faults through arguments and standard-library seams; checks import /repo/src directly (PYTHONPATH) so they always run the current working tree",
   "baseline_off_cmd": "cd /repo && /venv/bin/python -m pytest -ra -q -p no:cacheprovider --timeout=900 --continue-on-collection-errors",
   "source_commits": [],
   "add_only": True
 },
 "engines": [{"name": "sim", "path": "/verif/sim", "serves_properties": sorted(CHECKS),
              "kind_free_text": "deterministic simulator: one seed -> explicit JSON trace (operations, faults, schedule) -> execution of the real library under a seeded baton-passing thread scheduler / fault injector -> history oracles -> ddmin -> replay file"}],
 "checks": [check(p, c) for p, c in sorted(CHECKS.items())],
 "notes": "Technique family: deterministic simulation with fault injection. See DESIGN.md. Genuine defects repaired in /repo by 'fix:' commits and the two recorded (not repairable without editing the pinned tests) findings are listed in known_findings.json; seeded property-breaking changes and behaviour-preserving negative controls with the checks' verdicts are under seeded/ and negative/.",
 "not_applicable": [{"property_id":k,"reason":v} for k,v in na.items() if k not in CHECKS]
}
json.dump(m, open("/verif/MANIFEST.json","w"), indent=1)
