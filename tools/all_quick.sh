#!/bin/sh
# Run every claimed property's quick check on /repo and print the exit codes (0 expected).
cd "$(dirname "$0")/.." || exit 2
rc=0
for p in C05 C14 C16 C17 C20; do
  ./check $p --tier quick > /tmp/all_quick_$p.log 2>&1; e=$?
  echo "$p exit=$e $(grep -E 'runs=' /tmp/all_quick_$p.log | tail -1 | cut -c1-150)"
  grep -E "^VIOLATION|HARNESS-ERROR" /tmp/all_quick_$p.log | head -3
  [ $e -ne 0 ] && rc=1
done
exit $rc
