#!/venv/bin/python
"""Print section 9 of DESIGN.md (what the last runs covered) from /verif/evidence/*.json."""
import glob
import json

for f in sorted(glob.glob("/verif/evidence/C*.json")):
    d = json.load(open(f))
    c = d["coverage"]
    print(f"**{d['property_id']}** ({d['tier']} tier, VERIF_SEED={d['seed']}, {d['wall_s']} s wall, "
          f"{c.get('workers')} workers): {c['evaluations']} simulated runs ({c['runs_per_hour']} runs/h), "
          f"{c['distinct_nontrivial']} distinct non-trivial, {c['distinct_run_digests']} distinct digests, "
          f"{c['simulated_time']['total_steps']} simulated steps; violations {d['violations']}; "
          f"known findings matched {c.get('known_findings_matched')}; determinism sample "
          f"{c['determinism_selftest']['seeds_reexecuted']} seeds, {c['determinism_selftest']['mismatches']} mismatches.")
    extra = {k: v for k, v in c.items() if k.startswith("distinct_") and k not in ("distinct_nontrivial", "distinct_run_digests")}
    if c.get("states"):
        extra["states"] = c["states"]
        extra["transitions"] = c["transitions"]
    if extra:
        print("  - reach: " + ", ".join(f"{k}={v}" for k, v in sorted(extra.items())))
    print("  - faults fired: " + ", ".join(f"{k[6:]}={v}" for k, v in sorted(c["faults_fired"].items())))
    pr = {k[6:]: v for k, v in c["probes"].items()}
    if pr:
        print("  - probes hit: " + ", ".join(f"{k}={v}" for k, v in sorted(pr.items())))
    other = {k: v for k, v in c["counters"].items() if not k.startswith(("fault_", "probe_", "focus_"))}
    print("  - counters: " + ", ".join(f"{k}={v}" for k, v in sorted(other.items())))
    print()
