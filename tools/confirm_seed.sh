#!/bin/sh
# usage: tools/confirm_seed.sh <src_dir_with patch.diff demo.py meta.json> <dest id> [ported patch]
# Confirms in a scratch worktree of /repo HEAD: (a) test suite passes with the change, (b) demo fails
# with it, (c) demo passes without it; then stores patch (re-diffed against HEAD), demo and meta
# under /verif/seeded/<id>/.
set -u
src=$1; id=$2; patch=${3:-$src/patch.diff}
wt=/tmp/confirm_$$
git -C /repo worktree add --detach $wt HEAD -q || exit 2
demo=$(ls $src/demo*.py | head -1)
PYTHONPATH=$wt/src /venv/bin/python $demo >/dev/null 2>&1; c=$?
git -C $wt apply "$patch" 2>/dev/null || git -C $wt apply -3 "$patch" 2>/dev/null || { echo "$id: PATCH DOES NOT APPLY"; git -C /repo worktree remove --force $wt; exit 2; }
git -C $wt diff HEAD > /tmp/confirm_$$.diff
tests=$(cd $wt && PYTHONPATH=$wt/src /venv/bin/python -m pytest -q -p no:cacheprovider --timeout=900 --continue-on-collection-errors 2>&1 | tail -1)
PYTHONPATH=$wt/src /venv/bin/python $demo >/dev/null 2>&1; b=$?
git -C /repo worktree remove --force $wt
echo "$id: tests-with-change: [$tests] demo-with-change exit=$b demo-clean exit=$c"
case "$tests" in *"436 passed"*) ;; *) echo "$id: REJECT (tests)"; exit 1;; esac
[ $b -ne 0 ] && [ $c -eq 0 ] || { echo "$id: REJECT (demo)"; exit 1; }
mkdir -p /verif/seeded/$id
cp /tmp/confirm_$$.diff /verif/seeded/$id/patch.diff
cp $demo /verif/seeded/$id/
cp $src/meta.json /verif/seeded/$id/meta.agent.json
rm -f /tmp/confirm_$$.diff
echo "$id: CONFIRMED"
