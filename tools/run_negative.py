#!/venv/bin/python
"""Negative controls: behaviour-preserving changes (from independent sub-agents) on which every
check must stay silent.  Each is applied to a scratch worktree of /repo HEAD (never /repo itself);
the 436 tests must pass and the property's quick check must exit 0."""
import json
import os
import re
import subprocess
import sys
import time

VERIF = "/verif"
only = sys.argv[1:]
results = {}
for nid in sorted(os.listdir(f"{VERIF}/negative")):
    d = f"{VERIF}/negative/{nid}"
    if not os.path.isdir(d) or (only and nid not in only):
        continue
    agent = json.load(open(f"{d}/meta.agent.json"))
    prop = nid.split("-")[0].upper()
    wt = f"/tmp/negative_{os.getpid()}"
    subprocess.run(["git", "-C", "/repo", "worktree", "add", "--detach", wt, "HEAD", "-q"], check=True)
    try:
        ap = subprocess.run(["git", "-C", wt, "apply", f"{d}/patch.diff"], capture_output=True, text=True)
        if ap.returncode:
            results[nid] = {"verdict": "patch-does-not-apply"}
            print(nid, "patch-does-not-apply", flush=True)
            continue
        t = subprocess.run(["/venv/bin/python", "-m", "pytest", "-q", "-p", "no:cacheprovider", "--timeout=900",
                            "--continue-on-collection-errors"], cwd=wt, capture_output=True, text=True,
                           env=dict(os.environ, PYTHONPATH=f"{wt}/src"))
        tests = t.stdout.strip().splitlines()[-1] if t.stdout.strip() else ""
        t0 = time.time()
        env = dict(os.environ, VERIF_REPLAY_DIR=f"/tmp/replays_negative/{nid}")
        p = subprocess.run([f"{VERIF}/check", prop, "--tier", "quick", "--src", f"{wt}/src"],
                           capture_output=True, text=True, env=env, timeout=1800)
        runs = re.search(r"\] runs=(\d+)", p.stdout)
        verdict = {0: "silent", 1: "FALSE-ALARM", 2: "harness-error"}.get(p.returncode, "?")
        results[nid] = {"property": prop, "verdict": verdict, "exit": p.returncode, "tests": tests,
                        "runs": int(runs.group(1)) if runs else None, "wall_s": round(time.time() - t0, 1),
                        "classes": [l for l in p.stdout.splitlines() if "violation class" in l][:4],
                        "stderr_tail": p.stderr[-400:] if p.returncode else ""}
    finally:
        subprocess.run(["git", "-C", "/repo", "worktree", "remove", "--force", wt])
    meta = {"id": nid, "property": prop, "title": agent.get("title"),
            "what_changed": agent.get("what_changed"),
            "why_property_still_holds": agent.get("why_property_still_holds"),
            "origin": "independent sub-agent asked for behaviour-preserving maintainer changes",
            "result": results[nid]}
    json.dump(meta, open(f"{d}/meta.json", "w"), indent=1)
    print(nid, results[nid]["verdict"], results[nid].get("runs"), results[nid].get("wall_s"), results[nid]["tests"][:40], flush=True)
allr = {}
if os.path.exists(f"{VERIF}/negative/RESULTS.json"):
    allr = json.load(open(f"{VERIF}/negative/RESULTS.json"))
allr.update(results)
json.dump(allr, open(f"{VERIF}/negative/RESULTS.json", "w"), indent=1, sort_keys=True)
