#!/venv/bin/python
"""Sensitivity suite: run the quick check of the property each seeded change breaks against a
scratch worktree of /repo HEAD with the change applied (never /repo itself); record the verdict in
/verif/seeded/<id>/meta.json and a summary in /verif/seeded/RESULTS.json."""
import json
import os
import re
import subprocess
import sys
import time

VERIF = "/verif"
only = sys.argv[1:]
results = {}
head = subprocess.run(["git", "-C", "/repo", "rev-parse", "--short", "HEAD"], capture_output=True, text=True).stdout.strip()
for sid in sorted(os.listdir(f"{VERIF}/seeded")):
    d = f"{VERIF}/seeded/{sid}"
    if not os.path.isdir(d) or (only and sid not in only):
        continue
    agent = json.load(open(f"{d}/meta.agent.json")) if os.path.exists(f"{d}/meta.agent.json") else {}
    prop = (agent.get("property") or sid.split("-")[0]).upper()
    wt = f"/tmp/seeded_{os.getpid()}"
    subprocess.run(["git", "-C", "/repo", "worktree", "add", "--detach", wt, "HEAD", "-q"], check=True)
    try:
        ap = subprocess.run(["git", "-C", wt, "apply", f"{d}/patch.diff"], capture_output=True, text=True)
        if ap.returncode:
            ap = subprocess.run(["git", "-C", wt, "apply", "-3", f"{d}/patch.diff"], capture_output=True, text=True)
        if ap.returncode:
            results[sid] = {"property": prop, "verdict": "patch-does-not-apply", "repo_head": head}
            continue
        t0 = time.time()
        env = dict(os.environ, VERIF_REPLAY_DIR=f"/tmp/replays_seeded/{sid}", VERIF_DETERMINISM_SAMPLE="0")  # the quick tier as it is (run this on an otherwise idle machine)
        p = subprocess.run([f"{VERIF}/check", prop, "--tier", "quick", "--src", f"{wt}/src"],
                           capture_output=True, text=True, env=env, timeout=1800)
        wall = time.time() - t0
        viol = [l for l in p.stdout.splitlines() if l.startswith("VIOLATION")]
        classes = [l for l in p.stdout.splitlines() if "violation class" in l][:4]
        runs = re.search(r"\] runs=(\d+)", p.stdout)
        verdict = "caught" if (p.returncode == 1 and viol) else ("harness-error" if p.returncode == 2 else "missed")
        results[sid] = {"property": prop, "verdict": verdict, "exit": p.returncode,
                        "violations_reported": len(viol), "classes": classes,
                        "runs": int(runs.group(1)) if runs else None, "wall_s": round(wall, 1),
                        "repo_head": head,
                        "stderr_tail": p.stderr[-300:] if p.returncode == 2 else ""}
    finally:
        subprocess.run(["git", "-C", "/repo", "worktree", "remove", "--force", wt])
    meta = {
        "id": sid,
        "property": prop,
        "title": agent.get("title"),
        "what_breaks": agent.get("what_breaks"),
        "needs_to_manifest": agent.get("needs_to_manifest"),
        "files_changed": agent.get("files_changed"),
        "origin": "independent sub-agent given only the property text and a scratch worktree",
        "confirmed": "tools/confirm_seed.sh: 436 tests pass with the change; demo fails with it and passes without it (scratch worktree of /repo HEAD)",
        "checked_with": f"./check {prop} --tier quick --src <scratch worktree with patch>/src",
        "result": results[sid],
    }
    json.dump(meta, open(f"{d}/meta.json", "w"), indent=1)
    print(sid, results[sid]["verdict"], results[sid].get("runs"), results[sid].get("wall_s"), flush=True)
allr = {}
if os.path.exists(f"{VERIF}/seeded/RESULTS.json"):
    allr = json.load(open(f"{VERIF}/seeded/RESULTS.json"))
allr.update(results)
json.dump(allr, open(f"{VERIF}/seeded/RESULTS.json", "w"), indent=1, sort_keys=True)
